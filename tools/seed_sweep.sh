#!/bin/bash
# tools/seed_sweep.sh <Cxx-n> ... : run every quick check against each seeded change, in an isolated
# copy (/tmp/sweep/repo = worktree of /repo HEAD, /tmp/sweep/sim = copy of /verif/sim pointing at it),
# so that /repo, /verif/sim and /verif/evidence are not touched. Results: /verif/seeded/<id>/result.txt
set -u
export CARGO_NET_OFFLINE=true SIM_OUT_DIR=/tmp/sweep/out
ALL="C01 C02 C03 C04 C05 C06 C07 C08 C09 C10 C11 C13 C14 C15 C16"
rsync -a --exclude target /verif/sim/ /tmp/sweep/sim/ && sed -i 's|path = "/repo"|path = "/tmp/sweep/repo"|' /tmp/sweep/sim/Cargo.toml
for seed in "$@"; do
  id="${seed%-*}"; n="${seed#*-}"; src="/tmp/seed-$id/OUT"
  case "$seed" in R2-*) id="${seed#R2-}"; n=1; src="/tmp/seed2-$id/OUT";; R3-*) id="${seed#R3-}"; n=1; src="/tmp/seed3-$id/OUT";; R4-*) id="${seed#R4-}"; n=1; src="/tmp/seed4-$id/OUT";; R5-*) id="${seed#R5-}"; n=1; src="/tmp/seed5-$id/OUT";; R6-*) id="${seed#R6-}"; n=1; src="/tmp/seed6-$id/OUT";; esac
  dst="/verif/seeded/$seed"; mkdir -p "$dst"
  cp "$src/bug$n.diff" "$dst/patch.diff"; cp "$src/demo$n.rs" "$dst/demo.rs"
  git -C /tmp/sweep/repo checkout -q -- . ; git -C /tmp/sweep/repo reset -q --hard "$(git -C /repo rev-parse HEAD)"
  if ! git -C /tmp/sweep/repo apply "$dst/patch.diff" 2>/dev/null; then
    # the seed was made on an older HEAD of /repo: three-way merge onto the current one
    if git -C /tmp/sweep/repo apply --3way "$dst/patch.diff" 2>/dev/null; then git -C /tmp/sweep/repo reset -q; echo "(applied by 3-way merge onto $(git -C /repo rev-parse --short HEAD))" > "$dst/apply.txt";
    else git -C /tmp/sweep/repo reset -q --hard HEAD; echo "$seed: patch does not apply" > "$dst/result.txt"; continue; fi
  fi
  ( cd /tmp/sweep/sim && cargo build --release --offline 2>&1 | tail -3 ) > "$dst/build.log"
  : > "$dst/result.txt"
  for p in $ALL; do
    out=$(cd /tmp/sweep && timeout 900 ./sim/target/release/sim check "$p" quick 2>&1); rc=$?
    classes=$(echo "$out" | grep '^violation:' | sed 's/.*class="\([^"]*\)".*/\1/' | tr '\n' ';' | cut -c1-400)
    echo "$p rc=$rc classes=[$classes]" >> "$dst/result.txt"
  done
  git -C /tmp/sweep/repo checkout -q -- .
  echo "$seed done: $(grep -c 'rc=1' "$dst/result.txt") checks alarmed"
done
