#!/usr/bin/env python3
"""Write /verif/seeded/<id>/meta.json from the sweep results (result.txt), the confirmation runs
(confirm.txt) and the hand-written summaries below. Usage: tools/seed_meta.py"""
import json, os, re, subprocess

SUMMARY = {
 "C01-1": ("C01", "RaftLog::truncate: the `index == next_log_index(purged)` shortcut replaced by `index == 0 && purged.is_none()`: after a real purge(k), the legal truncate(k+1) is rejected (index k no longer in the index map).",
           "multi-step sequence: a real purge(upto) followed by truncate(upto.index+1) exactly"),
 "C01-2": ("C01", "RaftLog::purge: the pop-while-oldest-qualifies loop rewritten as BTreeMap::retain: also drops a later chunk whose closing last <= upto while an older chunk stays.",
           "truncate-then-append history where a later chunk closes with a smaller last than an earlier one, purge between the two, flush, clean reopen (Gap between chunks)"),
 "C02-1": ("C02", "append_and_apply passes the pre-validation clone (not applied for State records) to try_close_full_chunk as the new chunk's head snapshot: stale head State.",
           "a save_user_data()/update_state() that is exactly the record filling the open chunk, then flush, clean close, reopen"),
 "C02-2": ("C02", "pre-validation skipped for Commit records: a rejected commit is journalled; after flush + clean restart open() fails with LogIdReversal.",
           "a rejected (backward) commit followed by any flush and a clean restart"),
 "C03-1": ("C03", "FlushWorker handles a RemoveChunks request the moment it is found while draining the queue, i.e. before the batch (with the purge record) is written and synced.",
           "worker lagging so that RemoveChunks is drained into a write batch; crash / power loss between the unlink and the write+fdatasync of that batch"),
 "C03-2": ("C03", "send_flush acknowledges on the caller thread with Ok when the pending buffer is empty, without going through the worker.",
           "flush with nothing journalled since the previous (unwaited) flush while the worker lags; crash right after the acknowledgement"),
 "C04-1": ("C04", "same early-ack-when-nothing-pending change as C03-2 (independently produced): success reported before earlier queued writes are synced, and out of order.",
           "two flushes with nothing journalled in between (or flush right after a rotation-triggering append) while the worker is still busy or its sync fails"),
 "C04-2": ("C04", "sync_all_files drops rotated-away files from its list without sync_data().",
           "fdatasync failure on the rotation's (callback-less) sync of the old chunk tail, then a later flush that succeeds"),
 "C05-1": ("C05", "RemoveChunks: pending_removal.remove(0) -> swap_remove(0): files unlinked in the order c0, cn, cn-1, ..",
           "one purge obsoleting >= 3 closed chunks, flushed, and a crash inside the unlink loop after the second unlink"),
 "C05-2": ("C05", "purge() picks obsolete chunks with retain (same idea as C01-2, independently produced).",
           "non-monotone closing last values after truncate, purge in between, flush, any restart or crash"),
 "C06-1": ("C06", "pre-validation skipped for an Append whose index is last.index+1 ('consecutive entry needs no validation'): a lower-term id at the next index is journalled and inserted before being rejected.",
           "a rejected append with index exactly last.index+1 and log id <= last (lower term)"),
 "C06-2": ("C06", "pre-validation skipped for SaveVote and Commit: rejected votes/commits are journalled; visible only as journal growth, and after flush+restart open() fails.",
           "a rejected save_vote or commit followed by flush and restart (or a journal-size comparison around the call)"),
 "C07-1": ("C07", "RaftLog::flush sets the cache's last_evictable on the caller thread right after send_flush ('queued means done').",
           "rotation whose tail write the worker has not executed yet, an unwaited flush, an append under a tiny cache, then a read of the tail before the worker catches up"),
 "C07-2": ("C07", "open(): per-chunk eviction boundary taken from State records seen during replay instead of the loop-carried last log id: a mid-chunk State record (save_user_data) raises the boundary into the reused last chunk.",
           "save_user_data after an append in the last chunk, one more append, restart, small cache limits, read of an entry preceding the State record"),
 "C08-1": ("C08", "purge(): every closed chunk with closing last <= upto is removed, not only the oldest run (same family as C01-2/C05-2, independently produced).",
           "non-monotone closing last values (truncate into an earlier chunk), purge between them"),
 "C08-2": ("C08", "FlushWorker: need_sync only if the batch wrote bytes (`w.sync && !w.data.is_empty()`): an empty flush skips the sync, still acks Ok, and RemoveChunks unlinks while the new chunk's head snapshot was never synced.",
           "the PurgeUpto record fills the chunk (rotation), the purge covers the just-closed chunk, the following flush has no bytes; power loss afterwards"),
 "C09-1": ("C09", "WALRecord::decode: 'Unknown record type' error kind changed from InvalidData to UnexpectedEof: a flipped type field (> 5) is treated as an incomplete tail and truncated away.",
           "a byte flip in the 4-byte type field of a complete record producing a type > 5"),
 "C09-2": ("C09", "open(): ensure_consecutive_chunks moved after Chunk::open and run only if the chunk has > 1 records: a missing middle chunk before a head-only chunk goes unnoticed.",
           "store shut down right after a rotation (newest chunk head-only) with the second-newest chunk file removed"),
 "C10-1": ("C10", "verify_trailing_zeros compares `buffer[..n] != ZEROS` (unsliced 1024-byte constant): any zero tail whose length is not a multiple of 1024 is reported non-zero.",
           "zero tail of >= 28 bytes at a record boundary of the newest chunk with length not a multiple of 1024"),
 "C10-2": ("C10", "handle_record_error: the UnexpectedEof branch returns Ok(can_truncate): with truncation disabled a cut chunk is accepted and reused with the torn bytes in place.",
           "truncate_incomplete_record = Some(false) and a cut strictly inside a record of the newest chunk"),
 "C11-1": ("C11", "is_open_chunk_full: records_count() == chunk_max_records() instead of >=.",
           "chunk_max_records 0 or 1, or a restart with a limit lower than the record count of the reused last chunk"),
 "C11-2": ("C11", "on_disk_size(): start offset from the closed map with unwrap_or_default() instead of unwrap_or(open_start).",
           "all closed chunks purged (closed map empty) while the open chunk starts above offset 0; also after a restart on such a directory"),
 "C13-1": ("C13", "FileLock::drop removes the LOCK file while still holding the flock, then unlocks: a contender that opened the old inode and one that creates a fresh LOCK both get an exclusive lock.",
           "three contenders; A's unlink+unlock falling between B's open() of LOCK and B's flock; C attempts while B owns"),
 "C13-2": ("C13", "RaftLog::open takes the directory lock after loading (and possibly repairing) the chunks instead of first.",
           "an owner plus a contender scanning while the owner writes / with an incomplete tail on disk; a refused open truncates or an admitted open starts from a stale scan"),
 "C14-1": ("C14", "the _dir_lock field moved back in front of wal: drop releases the lock first and joins the worker afterwards (the join is still there).",
           "a pending chunk removal at drop plus another opener taking the lock between unlock and the end of the join; a single thread doing drop-then-reopen never sees it"),
 "C14-2": ("C14", "RaftLogWAL::drop skips the join when done_seq >= the seq of the last flush Write: RemoveChunks / rotation tail writes queued after it are not waited for.",
           "the worker's batch drain ending between the caller's flush Write and RemoveChunks sends (or unflushed rotations queued at drop), then immediate reopen"),
 "C15-1": ("C15", "PayloadCache::clear() no longer resets `size`.",
           "truncate(0) on a log where nothing has been purged, with a non-empty payload cached"),
 "C15-2": ("C15", "PayloadCache::insert returns before try_evict() when the payload is empty.",
           "an empty-payload append with the item limit exceeded and resident entries at or below the boundary (rotation + later sync moved the boundary)"),
 "C16-1": ("C16", "RaftLogState::append: consecutiveness check computes log_index(log_id) - log_index(last) (unchecked subtraction).",
           "append of an id with a higher term but a strictly lower index than last"),
 "C16-2": ("C16", "RaftLog::purge: debug_assert that the first key left in the index is upto.index+1 (or the index is empty).",
           "log starting above purged+1 (first append at a non-zero index, or truncate to empty then append elsewhere) and a purge strictly below first_held-1"),
 "R2-C02": ("C02", "reopen_last_closed() returns None (dropping the popped chunk) when the last chunk is already at or over the new limits ('don't append to a full chunk'): the chunk is in neither closed nor open after the restart.",
            "a restart with chunk limits lowered to at most the fill of the last chunk (or chunk_max_records <= 1); later a read under cache pressure fails with Chunk not found"),
 "R2-C03": ("C03", "FlushWorker splits a write batch at the FIRST request with sync (position instead of rposition): write(req1), fdatasync, write(req2..N), then Ok to every callback.",
            "worker lagging so that >= 2 Write requests land in one batch, and a power loss after the ack of a non-first request"),
 "R2-C04": ("C04", "the batch's sync result is sent with std::mem::replace(&mut reply, Ok(())): only the first callback of a failed batch sees the error.",
            ">= 2 flushes with callbacks in one worker batch AND that batch's fdatasync failing"),
 "R2-C05": ("C05", "verify_trailing_zeros does one read of at most 64 KiB and returns true only if it reached EOF.",
            "power loss between write and fdatasync on the newest chunk with the unsynced range zero-filled, longer than 65536 bytes, after at least one complete record"),
 "R2-C07": ("C07", "dump_data() keeps the store's live Arc<RwLock<PayloadCache>> instead of a copy.",
            "a snapshot taken while an entry is in the open chunk, then rotation + sync moving the boundary past it, an insert into a tiny cache evicting it, and only then iteration of the snapshot"),
 "R2-C08": ("C08", "last_sync_failed is assigned inside sync_all_files after the newest file's sync; a failure in the older-files loop returns early and leaves the flag false, so the queued RemoveChunks unlinks although the purge record was never synced.",
            "the purge flush is the first sync round after a rotation (sync list holds > 1 file) and the fdatasync of an OLDER file fails in that round"),
 "R2-C11": ("C11", "truncate() returns early without journalling when index == last.index + 1 (mirroring purge's early return).",
            "exactly truncate(last+1) (also truncate(0) on an empty log, truncate(purged+1) when everything is purged)"),
 "R2-C14": ("C14", "RaftLogWAL::drop polls is_finished() for at most 1 s of (wall-)clock time and returns without joining if the worker has not quit.",
            "the old worker needing more than 1 s (slow unlink/fdatasync) for the RemoveChunks queued behind the acknowledged flush; needs a simulated clock and slow-disk delays to be seen deterministically"),
 "R2-C15": ("C15", "PayloadCache::try_evict loops at most 16 times per insert.",
            "more than 16 entries becoming evictable between two appends (a closed chunk with > 16 cached entries synced while the limits are tiny)"),
 "R3-C01": ("C01", "RaftLogState::purge: 'last follows purged' now compares indexes (log_index(upto) >= next_log_index(last)) instead of log ids.",
            "purge((t', i)) while last == (t, i): same index, higher term (a snapshot landing exactly on a stale tail entry); last keeps the stale id until the next append"),
 "R3-C06": ("C06", "RaftLog::truncate computes prev = index.saturating_sub(1) and matches purged by index == prev: truncate(0) with purged at index 0 is accepted as TruncateAfter(purged) instead of rejected.",
            "purged index exactly 0 and the rejected call exactly truncate(0) (with at least one entry at index >= 1 to see the damage)"),
 "R3-C09": ("C09", "Chunk::read_record (cache-miss read path) decodes the record body without verifying its checksum; the open path is unchanged.",
            "store already open, an Append in a closed chunk evicted from the cache, its bytes altered on disk after open, then read()"),
 "R3-C10": ("C10", "reopen_last_closed re-opens a truncated newest chunk when only its head record is left: the next write lands at the stale file position, leaving a hole of zeros.",
            "torn/zero tail starting right after the head State record of the newest chunk, truncation enabled, then a write by the SAME instance that did the recovery and a second restart"),
 "R3-C13": ("C13", "FileLock::new removes the LOCK file when the lock is refused and the file did not exist before the call.",
            "a brand-new directory, contender B's exists() before A creates LOCK and A's flock before B's, and a third attempt while A is alive (two owners on different inodes)"),
 "R3-C16": ("C16", "debug_assert_ne!(chunk_id, open chunk id) added to RaftLogWAL::load_log_payload: read() panics for an entry of the open chunk that was evicted (the original returns Err).",
            "tiny cache, rotation + completed flush, truncate and same-term re-append of a log id not above the closed chunk's last, then read before the next rotation"),
 "R4-C03": ("C03", "send_flush sends the flush write with sync: callback.is_some(): flush(None) still writes the buffered bytes but no longer syncs, yet the RemoveChunks queued behind it unlinks the purged chunks.",
            "purge covering a closed chunk followed by flush(None), the unsynced write not sharing a batch with a syncing one, and a power loss after the unlink and before the next fdatasync"),
 "R4-C04": ("C04", "sync_all_files: `while files.len() > 1` became `if`: with three tracked files only the oldest is synced and dropped, the middle one is synced as 'newest', the real newest is never synced, and Ok is reported.",
            "a rotation, then the re-sync of the older file failing once during the batch that carries the next chunk's tail, then another rotation (three tracked files) and a fault-free flush"),
 "R4-C07": ("C07", "DumpRaftLogIter::read_log_payload reads with seek + BufReader + decode instead of the pread-based read_record: snapshots share the file position of each chunk file.",
            "a small cache, at least two snapshots of the same store iterated concurrently by different threads, both missing the cache for entries in the same chunk file"),
 "R4-C08": ("C08", "RemoveChunks under last_sync_failed does `pending_removal = chunk_paths` (replace) instead of extend: after two consecutive failed purge flushes the first batch of obsolete chunks is forgotten.",
            "purge A + failed fdatasync, purge B + failed fdatasync, purge C + successful flush, each purge obsoleting a closed chunk: B's and C's chunks are unlinked while A's older one stays"),
}


base = subprocess.check_output(["git", "-C", "/repo", "rev-parse", "--short", "HEAD"]).decode().strip()
for sid, (prop, what, needs) in sorted(SUMMARY.items()):
    d = f"/verif/seeded/{sid}"
    if not os.path.isdir(d):
        continue
    res = {}
    rp = f"{d}/result.txt"
    if os.path.exists(rp):
        for line in open(rp):
            m = re.match(r"(C\d+) rc=(\d+) classes=\[(.*)\]", line.strip())
            if m:
                res[m.group(1)] = {"rc": int(m.group(2)), "classes": [c for c in m.group(3).split(";") if c]}
    caught = sorted(p for p, r in res.items() if r["rc"] == 1)
    confirm = open(f"{d}/confirm.txt").read().strip() if os.path.exists(f"{d}/confirm.txt") else ""
    meta = {
        "id": sid,
        "breaks_property": prop,
        "change": what,
        "needs_to_manifest": needs,
        "produced_by": "fresh sub-agent given only the property text and a scratch worktree of /repo (nothing from /verif)",
        "confirmed": confirm,
        "ran": "tools/confirm_seed.sh (scratch worktree: existing suite passes with the change, demo fails with it and passes without), tools/seed_sweep.sh (every quick check against the change in an isolated copy of /repo and /verif/sim)",
        "checks_that_raised_a_violation": caught,
        "target_check_caught_it": prop in caught,
        "violation_classes": {p: r["classes"] for p, r in res.items() if r["rc"] == 1},
        "harness_errors": sorted(p for p, r in res.items() if r["rc"] not in (0, 1)),
        "files": ["patch.diff", "demo.rs", "meta.json", "result.txt"],
    }
    json.dump(meta, open(f"{d}/meta.json", "w"), indent=1)
    print(sid, "target caught" if meta["target_check_caught_it"] else "TARGET MISSED", "caught by", ",".join(caught), "harness errors:", meta["harness_errors"])
