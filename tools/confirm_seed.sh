#!/bin/bash
# tools/confirm_seed.sh <Cxx> <n>: confirm a sub-agent's seeded change in its scratch worktree:
#  with the change: the existing suite (no demo present) passes and the demo fails;
#  clean tree: the demo passes.
set -u
id="$1"; n="$2"; wt="/tmp/seed-$id"; out="$wt/OUT"
cd "$wt" || exit 2
export CARGO_NET_OFFLINE=true CARGO_TARGET_DIR="$wt/target"
git checkout -q -- . 2>/dev/null
rm -f tests/seed_demo*.rs
git apply "$out/bug$n.diff" || { echo "$id-$n: patch does not apply"; exit 2; }
suite=$(cargo test --offline 2>&1 | grep -E '^test result' | awk '{p+=$4; f+=$6} END {print p" passed, "f" failed"}')
cp "$out/demo$n.rs" "tests/seed_demo$n.rs"
bug_demo=$(cargo test --offline --test "seed_demo$n" 2>&1 | grep -E '^test result' | head -1 | cut -c1-60)
git checkout -q -- .
clean_demo=$(cargo test --offline --test "seed_demo$n" 2>&1 | grep -E '^test result' | head -1 | cut -c1-60)
rm -f tests/seed_demo*.rs
echo "$id-$n | suite with change: $suite | demo with change: $bug_demo | demo on clean tree: $clean_demo"
