#!/bin/bash
# tools/refresh_findings.sh: regenerate the minimised witnesses of the known findings from the
# current tree (trace positions shift whenever /repo changes) into /verif/findings/.
set -u
cd /verif || exit 2
export SIM_OUT_DIR=/tmp/refresh-out SIM_WITNESS_KNOWN=1
rm -rf /tmp/refresh-out; mkdir -p /tmp/refresh-out
for p in C02 C05 C07 C09 C10 C16; do ./check "$p" quick > /tmp/refresh-out/$p.log 2>&1; done
python3 - <<'PY'
import json,glob,shutil,re
names=[
 (r'^read-err:lower-term-family:NotFound', 'C02', 'C02-reappend-below-boundary-after-restart'),
 (r'^read-err:lower-term-family:NotFound', 'C07', 'C07-reappend-below-boundary-chunk-not-found'),
 (r'^read-err:lower-term-family:UnexpectedEof', 'C07', 'C07-reappend-below-boundary-unexpected-eof'),
 (r'^open-refused:.*Gap between chunks:non-newest-shorter-than-successor:in-rotation-window', 'C05', 'C05-rotation-window-gap-between-chunks'),
 (r'^open-panic:.*non-newest-shorter-than-successor:in-rotation-window', 'C05', 'C05-rotation-window-old-chunk-empty-panic'),
 (r'^open-panic:.*newest-has-0-records:before-first-acked-flush', 'C05', 'C05-newest-chunk-has-no-complete-record'),
 (r'^open-panic:.*newest-has-0-records:created-by-recovery', 'C05', 'C05-crash-during-recovery-new-chunk-empty'),
 (r'^corruption-absorbed:eof:newest', 'C09', 'C09-length-flip-absorbed-as-torn-tail'),
 (r'^refused-open-modified-non-newest:eof', 'C09', 'C09-refused-open-truncated-middle-chunk'),
 (r'^corruption:panic:eof:newest', 'C09', 'C09-type-flip-in-head-record-panics'),
 (r'^corruption:panic:eof:non-newest', 'C09', 'C09-type-flip-in-non-newest-head-panics'),
 (r'^cut:panic:newest-has-0-records', 'C10', 'C10-cut-inside-head-record-panics'),
 (r'^zero-tail:panic:newest-has-0-records', 'C10', 'C10-all-zero-newest-chunk-panics'),
 (r'^panic:api/types.rs:.*:purge', 'C16', 'C16-purge-at-u64max'),
 (r'^panic:api/types.rs:.*:append', 'C16', 'C16-append-after-u64max'),
]
for f in sorted(glob.glob('/tmp/refresh-out/replays/*.json')):
    r=json.load(open(f))
    for pat,prop,name in names:
        if r['property']==prop and re.search(pat,r['class']):
            shutil.copy(f,f'/verif/findings/{name}.json'); print(name,'<-',r['class'])
PY
