#!/bin/bash
# tools/try_patch.sh <patch.diff> [property ...]
# Applies a seeded change to /repo, runs the quick checks (all claimed properties by default),
# prints one line per check, and ALWAYS restores /repo afterwards. Evidence files written during
# a trial describe a mutated tree: re-run the checks on the clean tree before committing evidence.
set -u
patch="$(realpath "$1")"; shift
props=("$@")
if [ ${#props[@]} -eq 0 ]; then props=(C01 C02 C03 C04 C05 C06 C07 C08 C09 C10 C11 C13 C14 C15 C16); fi
cd /verif || exit 2
export SIM_OUT_DIR=/tmp/trial-out; mkdir -p /tmp/trial-out
if [ -n "$(git -C /repo status --porcelain --untracked-files=no)" ]; then echo "refusing: /repo has local modifications"; exit 2; fi
if ! git -C /repo apply --check "$patch" 2>/dev/null; then if git -C /repo apply --3way "$patch" 2>/dev/null; then git -C /repo reset -q; threeway=1; else git -C /repo reset -q --hard HEAD; echo "patch does not apply: $patch"; exit 2; fi; fi
[ "${threeway:-0}" = 1 ] || git -C /repo apply "$patch"
trap 'git -C /repo checkout -- . ; (cd /verif/sim && CARGO_NET_OFFLINE=true cargo build --release --offline >/dev/null 2>&1)' EXIT   # restore /repo AND the clean binary
for p in "${props[@]}"; do
  out=$(timeout 900 ./check "$p" quick 2>&1); rc=$?
  nviol=$(echo "$out" | grep -c '^VIOLATION')
  classes=$(echo "$out" | grep '^violation:' | sed 's/.*class="\([^"]*\)".*/\1/' | tr '\n' ';' | cut -c1-300)
  herr=$(echo "$out" | grep -c 'HARNESS-ERROR')
  echo "$p rc=$rc violations=$nviol harness_errors=$herr classes=[$classes]"
done
