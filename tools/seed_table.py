#!/usr/bin/env python3
"""Print the markdown table 'which checks catch which seeded changes' from /verif/seeded/*/meta.json."""
import json, glob, os
rows = []
for f in sorted(glob.glob('/verif/seeded/*/meta.json'), key=lambda p: (os.path.basename(os.path.dirname(p)).startswith('R'), p)):
    m = json.load(open(f))
    caught = m['checks_that_raised_a_violation']
    tgt = m['breaks_property']
    others = [c for c in caught if c != tgt]
    cls = m['violation_classes'].get(tgt, [])
    rows.append((m['id'], tgt, (m['change'][:88] + ('...' if len(m['change']) > 88 else '')).replace('|', '/'), 'yes' if tgt in caught else '**no**', ('; '.join(cls)[:120]).replace('|','/'), ', '.join(others) or '-'))
print('| seed | breaks | change (short) | target check alarmed | classes reported by the target check | other checks that alarmed |')
print('|------|--------|----------------|----------------------|--------------------------------------|---------------------------|')
for r in rows:
    print('| ' + ' | '.join(r) + ' |')
n = len(rows); ok = sum(1 for r in rows if r[3] == 'yes')
print(f'\n{ok} of {n} seeded changes are caught by the check of the property they were written against; '
      f'{sum(1 for r in rows if r[3]=="yes" or r[5] != "-")} of {n} by at least one check.')
