//! The sequential specification: a plain in-memory Raft log (DESIGN §4), plus the harness's
//! `Types` instance and callback type.

use std::collections::BTreeMap;

use raft_log::{Callback, Types};
use serde::{Deserialize, Serialize};

use crate::core::{self, HEv};

pub type LogId = (u64, u64); // (term, index)
pub type Vote = (u64, u64);

#[derive(Debug, Clone, PartialEq, Eq, Default)]
pub struct TT;

pub struct Cb {
    pub fid: u32,
    pub sent: bool,
}

impl Cb {
    pub fn new(fid: u32) -> Cb {
        Cb { fid, sent: false }
    }
}

impl Callback for Cb {
    fn send(mut self, res: Result<(), std::io::Error>) {
        self.sent = true;
        let ok = res.is_ok();
        {
            let mut st = core::lock();
            if st.active {
                st.trace.push(core::Ev::H(HEv::Ack { fid: self.fid, ok }));
                st.acks.push((self.fid, ok));
                st.epoch += 1;
            }
        }
        core::sim().yield_point("ack");
    }
}

impl Drop for Cb {
    fn drop(&mut self) {
        if !self.sent {
            core::ev(HEv::CbDropped { fid: self.fid });
        }
    }
}

impl Types for TT {
    type LogId = LogId;
    type LogPayload = String;
    type Vote = Vote;
    type UserData = String;
    type Callback = Cb;
    fn log_index(l: &Self::LogId) -> u64 {
        l.1
    }
    fn payload_size(p: &Self::LogPayload) -> u64 {
        p.len() as u64
    }
}

#[derive(Debug, Clone, PartialEq, Eq, Default, Serialize, Deserialize)]
pub struct MState {
    pub vote: Option<Vote>,
    pub last: Option<LogId>,
    pub committed: Option<LogId>,
    pub purged: Option<LogId>,
    pub user_data: Option<String>,
}

#[derive(Debug, Clone, PartialEq, Eq, Default)]
pub struct Model {
    pub st: MState,
    pub entries: BTreeMap<u64, (LogId, String)>,
}

#[derive(Debug, Clone, PartialEq, Eq)]
pub enum Reject {
    VoteReversal,
    LogIdReversal,
    NonConsecutive,
    CommitReversal,
    IndexNotFound,
}

fn next_index(l: Option<&LogId>) -> u64 {
    match l {
        Some(l) => l.1.wrapping_add(1),
        None => 0,
    }
}

impl Model {
    pub fn save_vote(&mut self, v: Vote) -> Result<(), Reject> {
        if Some(v) < self.st.vote {
            return Err(Reject::VoteReversal);
        }
        self.st.vote = Some(v);
        Ok(())
    }

    pub fn check_append(&self, id: &LogId) -> Result<(), Reject> {
        if Some(id) <= self.st.last.as_ref() {
            return Err(Reject::LogIdReversal);
        }
        if self.st.last.is_some() && next_index(self.st.last.as_ref()) != id.1 {
            return Err(Reject::NonConsecutive);
        }
        Ok(())
    }

    pub fn append_one(&mut self, id: LogId, payload: String) -> Result<(), Reject> {
        self.check_append(&id)?;
        self.entries.insert(id.1, (id, payload));
        self.st.last = Some(id);
        Ok(())
    }

    /// Which log id does `truncate(index)` cut after? Err = rejected.
    pub fn truncate_target(&self, index: u64) -> Result<Option<LogId>, Reject> {
        if index == next_index(self.st.purged.as_ref()) {
            return Ok(self.st.purged);
        }
        if index == 0 {
            return Err(Reject::IndexNotFound);
        }
        match self.entries.get(&(index - 1)) {
            Some((id, _)) => Ok(Some(*id)),
            None => Err(Reject::IndexNotFound),
        }
    }

    pub fn truncate(&mut self, index: u64) -> Result<(), Reject> {
        let after = self.truncate_target(index)?;
        self.truncate_after(after);
        Ok(())
    }

    pub fn truncate_after(&mut self, after: Option<LogId>) {
        let idx = next_index(after.as_ref());
        self.entries.split_off(&idx);
        if self.st.last > after {
            self.st.last = after;
        }
    }

    /// Returns false if the purge is a no-op (no record journalled).
    pub fn purge(&mut self, upto: LogId) -> bool {
        if upto.1 < next_index(self.st.purged.as_ref()) {
            return false;
        }
        let idx = next_index(Some(&upto));
        let keep = self.entries.split_off(&idx);
        self.entries = keep;
        if self.st.purged < Some(upto) {
            self.st.purged = Some(upto);
        }
        if Some(upto) > self.st.last {
            self.st.last = Some(upto);
        }
        true
    }

    pub fn commit(&mut self, id: LogId) -> Result<(), Reject> {
        if Some(id) < self.st.committed {
            return Err(Reject::CommitReversal);
        }
        self.st.committed = Some(id);
        Ok(())
    }

    pub fn save_user_data(&mut self, d: Option<String>) {
        self.st.user_data = d;
    }

    pub fn read(&self, from: u64, to: u64) -> Vec<(LogId, String)> {
        if from >= to {
            return vec![];
        }
        self.entries.range(from..to).map(|(_, v)| v.clone()).collect()
    }

    pub fn all(&self) -> Vec<(LogId, String)> {
        self.entries.values().cloned().collect()
    }
}

/// State of a real store in model terms.
pub fn real_state(rl: &raft_log::RaftLog<TT>) -> MState {
    let s = rl.log_state();
    MState {
        vote: s.vote().cloned(),
        last: s.last().cloned(),
        committed: s.committed().cloned(),
        purged: s.purged().cloned(),
        user_data: s.user_data.clone(),
    }
}
