//! Per-property check definitions: workload profile, inline oracles, post-hoc analysers, budgets.

use serde::{Deserialize, Serialize};

use crate::crash::{self, CrashCheckCfg, CrashStats};
use crate::exec::{self, Oracles, RunOut, Violation};
use crate::gen::{self, CacheMode, FaultMode, Profile};
use crate::ops::{Cfg, Spec};
use crate::rng::Rng;
use crate::shadow::CrashSpec;

pub const PROPS: &[&str] = &["C01", "C02", "C03", "C04", "C05", "C06", "C07", "C08", "C09", "C10", "C11", "C13", "C14", "C15", "C16"];

/// The non-spec part of a witness (what the post-hoc analyser did), explicit for replay.
#[derive(Clone, Debug, PartialEq, Eq, Serialize, Deserialize)]
pub enum Post {
    None,
    Crash(CrashSpec),
    Mutate(crate::mutate::MutSpec),
}

#[derive(Clone, Debug, Serialize, Deserialize)]
pub struct Witness {
    pub violation: Violation,
    pub spec: Spec,
    pub post: Post,
}

pub struct Budget {
    pub runs: u64,
}

pub fn budget(prop: &str, thorough: bool) -> Budget {
    let (q, t) = match prop {
        "C01" => (3000, 120_000),
        "C02" => (2500, 80_000),
        "C03" => (400, 6_000),
        "C05" => (400, 6_000),
        "C06" => (3000, 100_000),
        "C07" => (2500, 80_000),
        "C15" => (3000, 100_000),
        "C16" => (3000, 100_000),
        "C04" => (2500, 80_000),
        "C08" => (1500, 30_000),
        "C11" => (2500, 80_000),
        "C14" => (2500, 80_000),
        "C13" => (3000, 100_000),
        "C09" => (200, 2_400),
        "C10" => (200, 2_400),
        _ => (1000, 20_000),
    };
    Budget { runs: if thorough { t } else { q } }
}

pub fn oracles(prop: &str) -> Oracles {
    let mut o = Oracles { prop: prop.to_string(), ..Default::default() };
    match prop {
        "C01" => o.model_eq = true,
        "C02" => {
            o.restart_eq = true;
        }
        "C06" => o.reject_clean = true,
        "C07" => o.reads_ok = true,
        "C15" => o.cache_acct = true,
        "C16" => o.no_panic = true,
        "C04" => o.liveness = true,
        "C14" => o.reopen_ok = true,
        _ => {}
    }
    o
}

/// Profile for run `i` of a property (a property may mix several sub-families).
pub fn profile(prop: &str, rng: &mut Rng) -> Profile {
    let mut p = Profile::base();
    match prop {
        "C01" => {
            p.nops = (10, 120);
            if rng.chance(20) {
                p.faults = FaultMode::Transparent;
            }
        }
        "C02" => {
            p.nops = (10, 80);
            p.restarts = true;
            p.cache = CacheMode::Any;
            // "all operation histories" includes calls the store refuses
            p.rejected = rng.chance(50);
            if rng.chance(35) {
                p.faults = FaultMode::Transparent;
            }
        }
        "C03" | "C05" => {
            p.nops = (6, 40);
            p.cache = if rng.chance(20) { CacheMode::Any } else { CacheMode::Huge };
            p.restarts = rng.chance(30);
            p.purge_heavy = rng.chance(30);
            p.big_payloads = rng.chance(30);
            p.final_flush = rng.chance(50);
            p.flush_heavy = rng.chance(60);
            p.small_chunks_pct = *rng.pick(&[40, 85]);
            p.eager_worker_pct = 50;
            p.huge_payloads = rng.chance(25);
            p.flush_none_heavy = rng.chance(40);
        }
        "C04" => {
            p.nops = (10, 70);
            p.flush_heavy = true;
            p.restarts = rng.chance(30);
            p.purge_heavy = rng.chance(30);
            p.cache = CacheMode::Any;
            p.faults = if rng.chance(60) { FaultMode::WriteSync } else { FaultMode::None };
            p.eager_worker_pct = 25;
        }
        "C08" => {
            p.nops = (10, 70);
            p.purge_heavy = true;
            p.flush_heavy = rng.chance(70);
            p.restarts = rng.chance(40);
            p.cache = CacheMode::Any;
            p.faults = if rng.chance(40) { FaultMode::WriteSync } else { FaultMode::None };
            p.eager_worker_pct = 25;
        }
        "C09" | "C10" => {
            p.nops = (4, 25);
            p.restarts = rng.chance(40);
            p.cache = CacheMode::Any;
            p.big_payloads = false;
            p.purge_heavy = rng.chance(30);
            p.small_chunks_pct = 70;
            // now and then a record larger than every internal buffer (64 KiB / 1 KiB)
            p.huge_payloads = rng.chance(12);
        }
        "C14" => {
            p.nops = (8, 50);
            p.race_restart = true;
            p.purge_heavy = true;
            p.flush_heavy = true;
            p.cache = CacheMode::Any;
            p.eager_worker_pct = 10;
            // slow disk / short transfers: legal behaviours, no oracle is relaxed
            if rng.chance(50) {
                p.faults = FaultMode::Transparent;
            }
        }
        "C11" => {
            p.nops = (10, 80);
            p.restarts = true;
            p.cache = CacheMode::Any;
            p.flush_heavy = rng.chance(50);
            p.purge_heavy = rng.chance(40);
        }
        "C06" => {
            p.nops = (10, 80);
            p.rejected = true;
            p.restarts = true;
            p.cache = CacheMode::Any;
        }
        "C07" => {
            p.nops = (10, 100);
            p.cache = CacheMode::Tiny;
            p.readers = true;
            p.restarts = rng.chance(50);
            p.lower_term = rng.chance(30);
            if rng.chance(25) {
                p.faults = FaultMode::Transparent;
            }
        }
        "C15" => {
            p.nops = (10, 100);
            p.cache = CacheMode::Tiny;
            p.rejected = true;
            p.wait_idle = true;
            p.purge_heavy = rng.chance(50);
            // a fifth of the histories also use update_state() to move `last` (a public write path)
            p.update_state = rng.chance(20);
        }
        "C16" => {
            p.nops = (10, 80);
            p.hostile = true;
            p.rejected = true;
            p.cache = CacheMode::Any;
            p.restarts = rng.chance(50);
        }
        _ => {}
    }
    p
}

pub fn make_spec(prop: &str, run_seed: u64) -> Spec {
    let mut rng = Rng::new(run_seed ^ 0x5EED_0F_9806_F11E);
    if prop == "C13" {
        let n = rng.range(2, 4);
        let mut scripts = vec![];
        for _ in 0..n {
            let rounds = rng.range(1, 4);
            let mut sc = vec![];
            for _ in 0..rounds {
                sc.push(crate::ops::CAction { dump: rng.chance(25), hold: rng.below(6) as u8, write: rng.chance(60), pause: rng.below(8) as u8 });
            }
            scripts.push(sc);
        }
        let mut cfg = Cfg::plain();
        cfg.chunk_max_records = Some(*rng.pick(&[1usize, 2, 3, 1000]));
        let mut policy = gen::gen_policy(&mut rng);
        policy.p_switch = *rng.pick(&[10u8, 30, 60, 90]);
        let sched = crate::ops::Sched::Prng { seed: rng.next(), policy };
        return Spec { prop: prop.to_string(), run_seed, cfg, ops: vec![crate::ops::Op::Contenders { scripts }], sched, faults: vec![], flush_batch: 1024, lower_term_reappend: false };
    }
    let p = profile(prop, &mut rng);
    gen::gen_spec(prop, run_seed, &p)
}

#[derive(Default)]
pub struct Analysis {
    pub witnesses: Vec<(Violation, Post)>,
    pub crash: CrashStats,
    pub extra: std::collections::BTreeMap<String, u64>,
}

impl Analysis {
    fn add(&mut self, k: &str, v: u64) {
        if v > 0 {
            *self.extra.entry(k.to_string()).or_default() += v;
        }
    }
}

pub fn cfg_at(out: &RunOut, spec: &Spec, k: usize) -> Cfg {
    out.opens.iter().rev().find(|o| o.t_begin <= k).map(|o| o.cfg.clone()).unwrap_or_else(|| spec.cfg.clone())
}

/// Run the post-hoc analysers of `prop` on a finished run. `only` = replay of one explicit experiment.
pub fn analyse(prop: &str, spec: &Spec, out: &RunOut, thorough: bool, only: Option<&Post>, img_dir: &str, an: &mut Analysis) {
    for v in &out.violations {
        an.witnesses.push((v.clone(), Post::None));
    }
    if out.aborted.is_some() && !out.violations.is_empty() {
        return;
    }
    let mut rng = Rng::new(spec.run_seed ^ 0xC4A5_11);
    match prop {
        "C03" | "C05" => {
            let cc = CrashCheckCfg {
                thorough,
                budget_points: 20,
                check_prefix: prop == "C03",
                check_recoverable: prop == "C05",
                nested: prop == "C05",
                // C03: "never forgotten" must also hold after the recovered store went on writing and
                // was restarted cleanly (sampled); C05 judges the same workload for usability
                continuation: true,
                max_images: if thorough { 4000 } else { 150 },
            };
            let only_c = match only {
                Some(Post::Crash(c)) => Some(c),
                Some(_) => return,
                None => None,
            };
            let vs = crash::check_run(prop, out, &|k| cfg_at(out, spec, k), &cc, only_c, &mut rng, img_dir, &mut an.crash);
            for cv in vs {
                an.witnesses.push((cv.v, Post::Crash(cv.crash)));
            }
        }
        "C04" => {
            if only.map(|o| *o != Post::None).unwrap_or(false) {
                return;
            }
            let mut st = crate::analyse::AckStats { acks_ok_checked: 0, acks_err: 0, dropped: 0, batched_acks: 0, acks_spanning_rotation: 0, orphans_skipped: 0 };
            for v in crate::analyse::check_acks(spec, out, &mut st) {
                an.witnesses.push((v, Post::None));
            }
            an.add("acks_ok_checked", st.acks_ok_checked);
            an.add("acks_err_seen", st.acks_err);
            an.add("callbacks_dropped_unsent", st.dropped);
            an.add("acks_batched_with_previous", st.batched_acks);
            an.add("acks_spanning_rotation", st.acks_spanning_rotation);
            an.add("orphan_files_skipped_at_ack", st.orphans_skipped);
        }
        "C08" => {
            let only_c = match only {
                Some(Post::Crash(c)) => Some(c),
                _ => None,
            };
            if only_c.is_none() {
                let mut st = crate::analyse::UnlinkStats::default();
                for v in crate::analyse::check_unlinks(spec, out, &mut st) {
                    an.witnesses.push((v, Post::None));
                }
                an.add("unlinks_checked", st.unlinks);
                an.add("unlinks_fully_judged", st.unlinks_fully_judged);
                an.add("purge_record_in_deleted_chunk", st.purge_record_in_deleted_chunk);
                an.add("liveness_points", st.liveness_points);
                an.add("cleanup_unlinks_of_failed_creations", st.cleanup_unlinks);
                an.add("expected_gone_chunks_checked", st.expected_gone_checked);
            }
            // crash images before / between / after the unlinks must recover to a model prefix
            if only.map(|o| *o != Post::None).unwrap_or(true) && out.caller_errors == 0 && out.ep.trace.iter().any(|e| matches!(e, crate::core::Ev::Fs(f) if f.op == crate::core::FsOp::Unlink && f.file != crate::shadow::LOCK)) {
                let cc = CrashCheckCfg { thorough, budget_points: 10, check_prefix: true, check_recoverable: false, nested: false, continuation: false, max_images: if thorough { 1500 } else { 60 } };
                let vs = crash::check_run(prop, out, &|k| cfg_at(out, spec, k), &cc, only_c, &mut rng, img_dir, &mut an.crash);
                for cv in vs {
                    an.witnesses.push((cv.v, Post::Crash(cv.crash)));
                }
            }
        }
        "C09" | "C10" => {
            let only_m = match only {
                Some(Post::Mutate(m)) => Some(m),
                Some(_) => return,
                None => None,
            };
            let mut st = crate::mutate::MutStats::default();
            for (v, m) in crate::mutate::check_run(prop, spec, out, thorough, only_m, &mut rng, img_dir, &mut st) {
                an.witnesses.push((v, Post::Mutate(m)));
            }
            an.crash.images += st.mutations;
            an.crash.shapes.extend(st.shapes.iter().copied());
            an.add("source_images", st.images);
            an.add("mutated_images_opened_with_real_open", st.mutations);
            for (k, v) in &st.by_kind {
                an.add(&format!("mutation_{k}"), *v);
            }
            an.add("outcome_refused_or_read_error", st.refused);
            an.add("outcome_opened_with_exact_state", st.opened_equal);
            an.add("flips_classified_eof", st.eof_class);
            an.add("flips_classified_detectable", st.detectable_class);
            an.add("files_untouched_checks", st.untouched_checks);
            an.add("continuations_after_recovery", st.continuations);
        }
        "C14" => {
            if only.map(|o| *o != Post::None).unwrap_or(false) {
                return;
            }
            let mut st = crate::analyse::QuiesceStats::default();
            for v in crate::analyse::check_quiesce(out, &mut st) {
                an.witnesses.push((v, Post::None));
            }
            an.add("drops_checked", st.drops_checked);
            an.add("old_worker_fs_steps_after_drop", st.old_worker_steps_after_drop);
        }
        "C11" => {
            if only.map(|o| *o != Post::None).unwrap_or(false) {
                return;
            }
            let mut st = crate::analyse::JournalStats::default();
            for v in crate::analyse::check_journal(spec, out, &mut st) {
                an.witnesses.push((v, Post::None));
            }
            an.add("quiescent_points_parsed", st.points);
            an.add("chunk_files_parsed", st.files_parsed);
            an.add("returned_segments_checked", st.segments_checked);
            an.add("head_snapshots_checked", st.heads_checked);
            an.add("limit_rules_checked", st.limit_rules_checked);
        }
        _ => {}
    }
}

/// Execute a spec for a property with its oracles.
pub fn execute(prop: &str, spec: &Spec, root: &str) -> RunOut {
    if prop == "C13" {
        return exec::run_contenders(spec, root);
    }
    let or = oracles(prop);
    exec::run_spec(spec, &or, root)
}
