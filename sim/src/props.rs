//! Per-property check definitions: workload profile, inline oracles, post-hoc analysers, budgets.

use serde::{Deserialize, Serialize};

use crate::crash::{self, CrashCheckCfg, CrashStats};
use crate::exec::{self, Oracles, RunOut, Violation};
use crate::gen::{self, CacheMode, FaultMode, Profile};
use crate::ops::{Cfg, Spec};
use crate::rng::Rng;
use crate::shadow::CrashSpec;

pub const PROPS: &[&str] = &["C01", "C02", "C03", "C04", "C05", "C06", "C07", "C08", "C09", "C10", "C11", "C13", "C14", "C15", "C16"];

/// The non-spec part of a witness (what the post-hoc analyser did), explicit for replay.
#[derive(Clone, Debug, PartialEq, Eq, Serialize, Deserialize)]
pub enum Post {
    None,
    Crash(CrashSpec),
}

#[derive(Clone, Debug, Serialize, Deserialize)]
pub struct Witness {
    pub violation: Violation,
    pub spec: Spec,
    pub post: Post,
}

pub struct Budget {
    pub runs: u64,
}

pub fn budget(prop: &str, thorough: bool) -> Budget {
    let (q, t) = match prop {
        "C01" => (3000, 120_000),
        "C02" => (2500, 80_000),
        "C03" => (400, 6_000),
        "C05" => (400, 6_000),
        "C06" => (3000, 100_000),
        "C07" => (2500, 80_000),
        "C15" => (3000, 100_000),
        "C16" => (3000, 100_000),
        _ => (1000, 20_000),
    };
    Budget { runs: if thorough { t } else { q } }
}

pub fn oracles(prop: &str) -> Oracles {
    let mut o = Oracles { prop: prop.to_string(), ..Default::default() };
    match prop {
        "C01" => o.model_eq = true,
        "C02" => {
            o.restart_eq = true;
        }
        "C06" => o.reject_clean = true,
        "C07" => o.reads_ok = true,
        "C15" => o.cache_acct = true,
        "C16" => o.no_panic = true,
        "C04" => o.liveness = true,
        "C14" => o.reopen_ok = true,
        _ => {}
    }
    o
}

/// Profile for run `i` of a property (a property may mix several sub-families).
pub fn profile(prop: &str, rng: &mut Rng) -> Profile {
    let mut p = Profile::base();
    match prop {
        "C01" => {
            p.nops = (10, 120);
        }
        "C02" => {
            p.nops = (10, 80);
            p.restarts = true;
            p.cache = CacheMode::Any;
        }
        "C03" | "C05" => {
            p.nops = (6, 40);
            p.cache = if rng.chance(20) { CacheMode::Any } else { CacheMode::Huge };
            p.restarts = rng.chance(30);
            p.purge_heavy = rng.chance(30);
            p.big_payloads = rng.chance(30);
            p.final_flush = rng.chance(50);
            p.flush_heavy = rng.chance(60);
            p.small_chunks_pct = *rng.pick(&[40, 85]);
            p.eager_worker_pct = 50;
        }
        "C06" => {
            p.nops = (10, 80);
            p.rejected = true;
            p.restarts = true;
            p.cache = CacheMode::Any;
        }
        "C07" => {
            p.nops = (10, 100);
            p.cache = CacheMode::Tiny;
            p.readers = true;
            p.restarts = rng.chance(50);
            p.lower_term = rng.chance(30);
        }
        "C15" => {
            p.nops = (10, 100);
            p.cache = CacheMode::Tiny;
            p.rejected = true;
            p.wait_idle = true;
            p.purge_heavy = rng.chance(50);
        }
        "C16" => {
            p.nops = (10, 80);
            p.hostile = true;
            p.rejected = true;
            p.cache = CacheMode::Any;
            p.restarts = rng.chance(50);
        }
        _ => {}
    }
    p
}

pub fn make_spec(prop: &str, run_seed: u64) -> Spec {
    let mut rng = Rng::new(run_seed ^ 0x5EED_0F_9806_F11E);
    let p = profile(prop, &mut rng);
    gen::gen_spec(prop, run_seed, &p)
}

#[derive(Default)]
pub struct Analysis {
    pub witnesses: Vec<(Violation, Post)>,
    pub crash: CrashStats,
}

pub fn cfg_at(out: &RunOut, spec: &Spec, k: usize) -> Cfg {
    out.opens.iter().rev().find(|o| o.t_begin <= k).map(|o| o.cfg.clone()).unwrap_or_else(|| spec.cfg.clone())
}

/// Run the post-hoc analysers of `prop` on a finished run. `only` = replay of one explicit experiment.
pub fn analyse(prop: &str, spec: &Spec, out: &RunOut, thorough: bool, only: Option<&Post>, img_dir: &str, an: &mut Analysis) {
    for v in &out.violations {
        an.witnesses.push((v.clone(), Post::None));
    }
    if out.aborted.is_some() && !out.violations.is_empty() {
        return;
    }
    let mut rng = Rng::new(spec.run_seed ^ 0xC4A5_11);
    match prop {
        "C03" | "C05" => {
            let cc = CrashCheckCfg {
                thorough,
                budget_points: 20,
                check_prefix: prop == "C03",
                check_recoverable: prop == "C05",
                nested: prop == "C05",
                continuation: prop == "C05",
                max_images: if thorough { 4000 } else { 150 },
            };
            let only_c = match only {
                Some(Post::Crash(c)) => Some(c),
                Some(Post::None) => return,
                None => None,
            };
            let vs = crash::check_run(prop, out, &|k| cfg_at(out, spec, k), &cc, only_c, &mut rng, img_dir, &mut an.crash);
            for cv in vs {
                an.witnesses.push((cv.v, Post::Crash(cv.crash)));
            }
        }
        _ => {}
    }
}

/// Execute a spec for a property with its oracles.
pub fn execute(prop: &str, spec: &Spec, root: &str) -> RunOut {
    let or = oracles(prop);
    exec::run_spec(spec, &or, root)
}
