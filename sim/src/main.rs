#![recursion_limit = "512"]
//! raft-log deterministic simulator: `sim check <id> quick|thorough`, `sim replay <file>`,
//! `sim work ...` (internal), `sim selfcheck`.
mod analyse;
mod check;
mod core;
mod crash;
mod exec;
mod gen;
mod interpose;
mod model;
mod mutate;
mod ops;
mod props;
mod rng;
mod shadow;

fn verif_seed() -> u64 {
    std::env::var("VERIF_SEED").ok().and_then(|s| s.trim().parse().ok()).unwrap_or(1)
}

fn main() {
    core::init();
    exec::install_panic_hook();
    let args: Vec<String> = std::env::args().collect();
    let cmd = args.get(1).map(|s| s.as_str()).unwrap_or("");
    let code = match cmd {
        "check" => {
            let prop = args.get(2).cloned().unwrap_or_default();
            let tier = args.get(3).cloned().or_else(|| std::env::var("VERIF_TIER").ok()).unwrap_or_else(|| "quick".into());
            let jobs = std::env::var("VERIF_JOBS").ok().and_then(|s| s.parse().ok()).unwrap_or(16);
            check::check(&prop, tier == "thorough", verif_seed(), jobs)
        }
        "work" => {
            let a = |i: usize| args.get(i).cloned().unwrap_or_default();
            check::work(&a(2), a(3) == "thorough", a(4).parse().unwrap(), a(5).parse().unwrap(), a(6).parse().unwrap(), a(7).parse().unwrap(), a(8).parse().unwrap(), &a(9));
            0
        }
        "hash" => {
            let a = |i: usize| args.get(i).cloned().unwrap_or_default();
            check::hash_cmd(&a(2), a(3).parse().unwrap(), a(4).parse().unwrap(), a(5).parse().unwrap(), verif_seed())
        }
        "selfcheck" => check::selfcheck_cmd(args.get(2).and_then(|s| s.parse().ok()).unwrap_or(48), verif_seed()),
        "trace" => check::trace_cmd(&args.get(2).cloned().unwrap_or_default()),
        "replay" => check::replay_cmd(&args.get(2).cloned().unwrap_or_default()),
        _ => {
            eprintln!("usage: sim check <C01..C16> [quick|thorough] | sim replay <file>");
            2
        }
    };
    std::process::exit(code);
}
