//! Shadow disk: what is written and what is durable, reconstructed from the fs trace.
//! Crash model = the properties' one (DESIGN §3.3): directory operations and ftruncate are
//! durable when the call returns; file bytes beyond the last successful sync may be lost from
//! any byte onward, or zero-filled from a record boundary.

use std::collections::BTreeMap;

use raft_log::codeq::Decode;
use raft_log::WALRecord;
use serde::{Deserialize, Serialize};

use crate::core::{self, Ev, FsEv, FsOp};
use crate::model::TT;

pub const LOCK: &str = "LOCK";

#[derive(Clone, Debug, PartialEq, Eq, Default)]
pub struct SFile {
    pub data: Vec<u8>,
    /// bytes [0, synced) are durable
    pub synced: usize,
}

#[derive(Clone, Debug, PartialEq, Eq, Default)]
pub struct Disk {
    pub files: BTreeMap<String, SFile>,
}

impl Disk {
    pub fn apply(&mut self, e: &FsEv) {
        if e.file == LOCK {
            return;
        }
        match e.op {
            FsOp::Create => {
                if e.res >= 0 {
                    self.files.insert(e.file.clone(), SFile::default());
                }
            }
            FsOp::Write => {
                if e.res > 0 {
                    let f = self.files.entry(e.file.clone()).or_default();
                    let off = e.off as usize;
                    let end = off + e.data.len();
                    if f.data.len() < end {
                        f.data.resize(end, 0);
                    }
                    f.data[off..end].copy_from_slice(&e.data);
                    if off < f.synced {
                        f.synced = off;
                    }
                }
            }
            FsOp::Fdatasync | FsOp::Fsync => {
                if e.res >= 0 {
                    if let Some(f) = self.files.get_mut(&e.file) {
                        f.synced = f.data.len();
                    }
                }
            }
            FsOp::Ftruncate => {
                if e.res >= 0 {
                    if let Some(f) = self.files.get_mut(&e.file) {
                        f.data.resize(e.off as usize, 0);
                        f.synced = f.synced.min(e.off as usize);
                    }
                }
            }
            FsOp::Unlink => {
                if e.res >= 0 {
                    self.files.remove(&e.file);
                }
            }
            _ => {}
        }
    }

    pub fn replay(initial: &Disk, trace: &[Ev], k: usize) -> Disk {
        let mut d = initial.clone();
        for e in &trace[..k.min(trace.len())] {
            if let Ev::Fs(f) = e {
                d.apply(f);
            }
        }
        d
    }

    /// Materialise into a fresh directory (harness bookkeeping, outside the simulation).
    pub fn write_to(&self, dir: &str) {
        core::bypass(|| {
            let _ = std::fs::remove_dir_all(dir);
            std::fs::create_dir_all(dir).expect("image dir");
            for (n, f) in &self.files {
                std::fs::write(format!("{dir}/{n}"), &f.data).expect("image file");
            }
        });
    }

    /// Read a directory back (harness bookkeeping).
    pub fn read_from(dir: &str) -> Disk {
        core::bypass(|| {
            let mut d = Disk::default();
            if let Ok(rd) = std::fs::read_dir(dir) {
                for e in rd.flatten() {
                    let n = e.file_name().to_string_lossy().into_owned();
                    if n == LOCK {
                        continue;
                    }
                    let data = std::fs::read(e.path()).unwrap_or_default();
                    let l = data.len();
                    d.files.insert(n, SFile { data, synced: l });
                }
            }
            d
        })
    }

    pub fn all_durable(mut self) -> Disk {
        for f in self.files.values_mut() {
            f.synced = f.data.len();
        }
        self
    }

    /// Chunk files in journal order with their global start offsets.
    pub fn chunks(&self) -> Vec<(u64, &String, &SFile)> {
        let mut v: Vec<(u64, &String, &SFile)> = self.files.iter().filter_map(|(n, f)| parse_chunk_name(n).map(|o| (o, n, f))).collect();
        v.sort_by_key(|x| x.0);
        v
    }
}

pub fn parse_chunk_name(n: &str) -> Option<u64> {
    let s = n.strip_prefix("r-")?.strip_suffix(".wal")?;
    if s.len() != 26 {
        return None;
    }
    let digits: String = s.chars().filter(|c| c.is_ascii_digit()).collect();
    digits.parse().ok()
}

pub fn chunk_name(off: u64) -> String {
    // 26 chars: 20 digits in groups of 3 from the right, separated by '_'
    let d = format!("{:020}", off);
    let b = d.as_bytes();
    let mut out = String::new();
    // groups: 2 + 6*3
    out.push_str(std::str::from_utf8(&b[0..2]).unwrap());
    for g in 0..6 {
        out.push('_');
        out.push_str(std::str::from_utf8(&b[2 + g * 3..5 + g * 3]).unwrap());
    }
    format!("r-{out}.wal")
}

#[derive(Clone, Debug)]
pub struct Parsed {
    /// (start, end, record) of every complete record from the start of the file
    pub recs: Vec<(usize, usize, WALRecord<TT>)>,
    /// why parsing stopped before the end of the data, if it did
    pub stop: Option<String>,
}

/// Independent sequential parse with the public codec.
pub fn parse_records(data: &[u8]) -> Parsed {
    let mut recs = vec![];
    let mut pos = 0usize;
    let mut stop = None;
    while pos < data.len() {
        let mut sl = &data[pos..];
        let before = sl.len();
        match WALRecord::<TT>::decode(&mut sl) {
            Ok(r) => {
                let used = before - sl.len();
                recs.push((pos, pos + used, r));
                pos += used;
            }
            Err(e) => {
                stop = Some(format!("{:?}", e.kind()));
                break;
            }
        }
    }
    Parsed { recs, stop }
}

pub fn boundaries(data: &[u8]) -> Vec<usize> {
    let p = parse_records(data);
    let mut b = vec![0usize];
    for r in &p.recs {
        b.push(r.1);
    }
    b
}

#[derive(Clone, Copy, Debug, PartialEq, Eq, Serialize, Deserialize, PartialOrd, Ord)]
pub enum CrashKind {
    Process,
    PowerCut,
    PowerZero,
}

/// An explicit crash experiment: replayable without a PRNG.
#[derive(Clone, Debug, PartialEq, Eq, Serialize, Deserialize)]
pub struct CrashSpec {
    /// events [0, k) of the run's trace completed before the crash
    pub k: usize,
    /// if event k is a write: this many of its bytes made it (process crash inside the call)
    #[serde(default)]
    pub partial: Option<usize>,
    pub kind: CrashKind,
    /// per file: PowerCut = length kept; PowerZero = zero-filled from this offset (length kept)
    #[serde(default)]
    pub cuts: BTreeMap<String, usize>,
    /// second-level crash during the recovery of this image (events of the recovery trace kept)
    #[serde(default)]
    pub nested: Option<Box<CrashSpec>>,
    /// second crash after the recovered store ran the continuation workload (k indexes the
    /// continuation's trace; unsynced bytes written by the dead first process are still unsynced)
    #[serde(default)]
    pub after_continuation: Option<Box<CrashSpec>>,
}

/// Apply a crash spec to the disk state at the crash point.
pub fn make_image(initial: &Disk, trace: &[Ev], c: &CrashSpec) -> Disk {
    let mut d = Disk::replay(initial, trace, c.k);
    if let Some(p) = c.partial {
        if let Some(Ev::Fs(f)) = trace.get(c.k) {
            if f.op == FsOp::Write && f.res > 0 {
                let mut e = f.clone();
                e.data.truncate(p.min(e.data.len()));
                e.res = e.data.len() as i64;
                if !e.data.is_empty() {
                    d.apply(&e);
                }
            }
        }
    }
    match c.kind {
        CrashKind::Process => {}
        CrashKind::PowerCut => {
            for (n, f) in d.files.iter_mut() {
                let cut = c.cuts.get(n).copied().unwrap_or(f.data.len());
                let cut = cut.clamp(f.synced.min(f.data.len()), f.data.len());
                f.data.truncate(cut);
            }
            d = d.all_durable();
        }
        CrashKind::PowerZero => {
            for (n, f) in d.files.iter_mut() {
                if let Some(z) = c.cuts.get(n).copied() {
                    let z = z.clamp(f.synced.min(f.data.len()), f.data.len());
                    for b in f.data[z..].iter_mut() {
                        *b = 0;
                    }
                }
            }
            d = d.all_durable();
        }
    }
    d
}
