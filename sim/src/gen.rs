//! Seeded workload generation (swarm style): per-run op mix, sizes, knobs, policy and fault plan
//! are all drawn from the run's PRNG, then written out explicitly into a `Spec`.

use crate::core::{Call, Effect, Fault, Policy};
use crate::model::{LogId, Model};
use crate::ops::{Cfg, Op, Pay, Sched, Spec};
use crate::rng::Rng;

#[derive(Clone, Copy, Debug, PartialEq, Eq)]
pub enum CacheMode {
    Huge,
    Tiny,
    Any,
}

#[derive(Clone, Debug)]
pub struct Profile {
    pub nops: (u64, u64),
    pub cache: CacheMode,
    pub restarts: bool,
    pub race_restart: bool,
    pub rejected: bool,
    pub hostile: bool,
    pub readers: bool,
    pub purge_heavy: bool,
    pub wait_idle: bool,
    pub lower_term: bool,
    pub faults: FaultMode,
    /// chunk knobs small so that rotations are frequent
    pub small_chunks_pct: u64,
    pub final_flush: bool,
    pub big_payloads: bool,
    pub flush_heavy: bool,
    /// percent of runs that use an eager-worker schedule (worker runs almost immediately)
    pub eager_worker_pct: u64,
    /// occasionally a payload of 70-150 KB (more than the 64 KB / 1 KB internal buffers)
    pub huge_payloads: bool,
    /// flush(None) (no callback) as a frequent op
    pub flush_none_heavy: bool,
    /// update_state() calls that move `last` without touching the entries
    pub update_state: bool,
}

#[derive(Clone, Copy, Debug, PartialEq, Eq)]
pub enum FaultMode {
    None,
    WriteSync,
    All,
    /// only legal-but-unusual behaviours that must be invisible: short reads/writes and EINTR
    Transparent,
}

impl Profile {
    pub fn base() -> Profile {
        Profile {
            nops: (10, 60),
            cache: CacheMode::Huge,
            restarts: false,
            race_restart: false,
            rejected: false,
            hostile: false,
            readers: false,
            purge_heavy: false,
            wait_idle: false,
            lower_term: true,
            faults: FaultMode::None,
            small_chunks_pct: 85,
            final_flush: true,
            big_payloads: true,
            flush_heavy: false,
            eager_worker_pct: 15,
            huge_payloads: false,
            flush_none_heavy: false,
            update_state: false,
        }
    }
}

pub fn gen_cfg(rng: &mut Rng, p: &Profile) -> Cfg {
    let small = rng.chance(p.small_chunks_pct);
    let chunk_max_records = if small {
        Some(*rng.pick(&[0usize, 1, 2, 2, 3, 3, 4, 5, 5, 8, 13, 20, 40]))
    } else {
        *rng.pick(&[None, Some(1024 * 1024)])
    };
    let chunk_max_size = match rng.below(10) {
        0 => Some(0),
        1 => Some(1),
        2 => Some(64),
        3 => Some(200),
        4 => Some(1024),
        5 => Some(4000),
        _ => None,
    };
    let read_buffer_size = match rng.below(9) {
        8 => Some(0),
        0 => Some(1),
        1 => Some(2),
        2 => Some(7),
        3 => Some(64),
        4 => Some(4096),
        _ => None,
    };
    let (log_cache_max_items, log_cache_capacity) = match p.cache {
        CacheMode::Huge => (None, None),
        CacheMode::Tiny => (
            Some(*rng.pick(&[0usize, 0, 1, 1, 2, 3, 5])),
            if rng.chance(50) { Some(*rng.pick(&[0usize, 1, 16, 64, 256])) } else { None },
        ),
        CacheMode::Any => {
            if rng.chance(50) {
                (None, None)
            } else {
                (Some(*rng.pick(&[0usize, 1, 2, 5, 100])), if rng.chance(30) { Some(*rng.pick(&[0usize, 16, 256, 4096])) } else { None })
            }
        }
    };
    Cfg { chunk_max_records, chunk_max_size, read_buffer_size, log_cache_max_items, log_cache_capacity, truncate_incomplete_record: None }
}

pub fn gen_policy(rng: &mut Rng) -> Policy {
    let p_switch = *rng.pick(&[0u8, 2, 10, 30, 60]);
    let w_worker = *rng.pick(&[1u8, 4, 4, 16]);
    let (starve_pm, starve_len) = match rng.below(4) {
        0 => (0, 0),
        1 => (20, 30),
        2 => (10, 200),
        _ => (5, 1000),
    };
    let starve_class = if rng.chance(80) { 0 } else { 1 };
    Policy { p_switch, w_worker, starve_pm, starve_len, starve_class }
}

struct G<'a> {
    rng: &'a mut Rng,
    m: Model,
    next_tag: u32,
    cur_term: u64,
    max_term: u64,
    lower_term: bool,
    used_lower_term: bool,
    big: bool,
    huge: bool,
    /// max term among entries removed by the last truncation, until the next append
    removed_term: Option<u64>,
}

impl G<'_> {
    fn pay(&mut self) -> Pay {
        self.next_tag += 1;
        if self.huge && self.rng.chance(4) {
            return Pay { tag: self.next_tag, fill: self.rng.range(70_000, 150_000) as u32, empty: false };
        }
        let r = self.rng.below(100);
        let fill = if r < 8 {
            return Pay { tag: self.next_tag, fill: 0, empty: true };
        } else if r < 60 {
            self.rng.below(12)
        } else if r < 90 {
            self.rng.range(12, 120)
        } else if self.big {
            self.rng.range(500, 3000)
        } else {
            self.rng.range(100, 300)
        };
        Pay { tag: self.next_tag, fill: fill as u32, empty: false }
    }

    fn last(&self) -> Option<LogId> {
        self.m.st.last
    }

    fn gen_append(&mut self) -> Op {
        let n = *self.rng.pick(&[1u64, 1, 1, 2, 2, 3, 5]);
        let mut out = vec![];
        // choose a term
        let last = self.last();
        let floor = last.map(|l| l.0).unwrap_or(0);
        let mut term = if let Some(removed) = self.removed_term.take() {
            // re-append after a truncation that removed entries (max removed term = `removed`)
            if self.lower_term && floor < removed && self.rng.chance(70) {
                // Raft-legal lower-term re-append: a new leader replicates older-term entries
                self.used_lower_term = true;
                self.rng.range(floor, removed - 1)
            } else {
                self.max_term.saturating_add(1)
            }
        } else {
            let mut t = self.cur_term.max(floor);
            if !self.lower_term {
                t = t.max(self.max_term);
            }
            if self.rng.chance(15) {
                t = t.max(self.max_term).saturating_add(1);
            }
            t
        };
        if term < floor {
            term = floor;
        }
        let mut idx = match last {
            Some(l) => l.1.saturating_add(1),
            None => {
                if self.rng.chance(40) {
                    self.rng.range(1, 30)
                } else {
                    0
                }
            }
        };
        for _ in 0..n {
            let id = (term, idx);
            let p = self.pay();
            if self.m.append_one(id, p.build()).is_err() {
                break;
            }
            out.push((id, p));
            idx = idx.saturating_add(1);
        }
        self.cur_term = term;
        self.max_term = self.max_term.max(term);
        Op::Append(out)
    }

    fn gen_vote(&mut self) -> Op {
        let cur = self.m.st.vote.unwrap_or((0, 0));
        let v = match self.rng.below(4) {
            0 => cur,
            1 => (cur.0, cur.1.saturating_add(self.rng.below(3))),
            _ => (cur.0.saturating_add(1 + self.rng.below(2)), self.rng.below(4)),
        };
        let _ = self.m.save_vote(v);
        Op::Vote(v)
    }

    fn gen_truncate(&mut self) -> Option<Op> {
        let lo = match self.m.st.purged {
            Some(p) => p.1.saturating_add(1),
            None => self.m.entries.keys().next().copied()?,
        };
        let hi = self.m.entries.keys().next_back().copied()?.saturating_add(1);
        if hi < lo {
            return None;
        }
        // bias towards the tail
        let i = if self.rng.chance(60) { hi.saturating_sub(self.rng.below(3)).max(lo) } else { self.rng.range(lo, hi) };
        let removed = self.m.entries.range(i..).map(|(_, e)| e.0 .0).max();
        if self.m.truncate(i).is_err() {
            return None;
        }
        if let Some(r) = removed {
            self.removed_term = Some(self.removed_term.unwrap_or(0).max(r));
        }
        Some(Op::Truncate(i))
    }

    fn gen_purge(&mut self, heavy: bool) -> Option<Op> {
        let beyond = self.rng.chance(if heavy { 6 } else { 10 });
        let id = if beyond || self.m.entries.is_empty() {
            let l = self.last().or(self.m.st.purged)?;
            (l.0.saturating_add(self.rng.below(2)), l.1.saturating_add(1 + self.rng.below(3)))
        } else {
            let keys: Vec<u64> = self.m.entries.keys().copied().collect();
            let k = if heavy && self.rng.chance(50) {
                // purge most of the log
                keys[keys.len() - 1 - (self.rng.below(keys.len().min(3) as u64) as usize)]
            } else {
                keys[self.rng.below(keys.len() as u64) as usize]
            };
            let id = self.m.entries[&k].0;
            // occasionally the snapshot's id carries a higher term than the stale *tail* entry at that
            // index (Raft-legal only for the last entry: nothing of the old term may follow it)
            if Some(id) == self.m.st.last && self.rng.chance(25) {
                (id.0.saturating_add(1 + self.rng.below(2)), id.1)
            } else {
                id
            }
        };
        if self.rng.chance(5) {
            // a no-op purge at or below the purged point
            if let Some(p) = self.m.st.purged {
                return Some(Op::Purge((p.0, p.1.saturating_sub(self.rng.below(2)))));
            }
        }
        self.m.purge(id);
        Some(Op::Purge(id))
    }

    fn gen_commit(&mut self) -> Option<Op> {
        let cur = self.m.st.committed;
        let cands: Vec<LogId> = self.m.entries.values().map(|e| e.0).filter(|id| Some(*id) >= cur).collect();
        let id = if cands.is_empty() || self.rng.chance(10) {
            cur.or(self.last())?
        } else {
            cands[self.rng.below(cands.len() as u64) as usize]
        };
        let _ = self.m.commit(id);
        Some(Op::Commit(id))
    }

    fn gen_user_data(&mut self) -> Op {
        let d = match self.rng.below(5) {
            0 => None,
            1 => Some(String::new()),
            _ => {
                let n = self.rng.below(40);
                Some(format!("u{}{}", self.next_tag, "z".repeat(n as usize)))
            }
        };
        self.m.save_user_data(d.clone());
        Op::UserData(d)
    }

    /// An op the specification rejects in the current state.
    fn gen_rejected(&mut self) -> Option<Op> {
        let m = &self.m;
        match self.rng.below(6) {
            0 => {
                let v = m.st.vote?;
                if v == (0, 0) {
                    return None;
                }
                let lower = if v.1 > 0 && self.rng.chance(50) { (v.0, v.1 - 1) } else if v.0 > 0 { (v.0 - 1, v.1.saturating_add(self.rng.below(3))) } else { return None };
                Some(Op::Vote(lower))
            }
            1 => {
                // log id <= last
                let l = m.st.last?;
                let id = match self.rng.below(3) {
                    0 => l,
                    1 => (l.0, l.1.checked_sub(1)?),
                    _ => (l.0.checked_sub(1)?, l.1.checked_add(1)?), // consecutive index but smaller term
                };
                let p = self.pay();
                Some(Op::Append(vec![(id, p)]))
            }
            2 => {
                // non-consecutive index
                let l = m.st.last?;
                let id = (l.0.saturating_add(self.rng.below(2)), l.1.checked_add(2 + self.rng.below(3))?);
                let p = self.pay();
                Some(Op::Append(vec![(id, p)]))
            }
            3 => {
                let c = m.st.committed?;
                let id = if c.1 > 0 && self.rng.chance(60) { (c.0, c.1 - 1) } else if c.0 > 0 { (c.0 - 1, c.1.saturating_add(1)) } else { return None };
                Some(Op::Commit(id))
            }
            4 => {
                // truncate at a non-existent index
                let hi = m.entries.keys().next_back().copied().or(m.st.last.map(|l| l.1)).unwrap_or(0);
                let i = match self.rng.below(3) {
                    0 => hi.checked_add(2 + self.rng.below(5))?,
                    1 => {
                        // at or below the purged index, including 0
                        let p = m.st.purged?;
                        self.rng.range(0, p.1)
                    }
                    _ => {
                        // below a first-append-at-nonzero-index log start, nothing purged
                        if m.st.purged.is_some() {
                            return None;
                        }
                        let first = m.entries.keys().next().copied()?;
                        if first < 2 {
                            return None;
                        }
                        self.rng.range(1, first - 1)
                    }
                };
                if m.truncate_target(i).is_ok() {
                    return None;
                }
                Some(Op::Truncate(i))
            }
            _ => {
                // batch whose k-th entry is rejected
                let l = m.st.last?;
                let good = self.rng.below(3);
                let mut es = vec![];
                let mut idx = l.1.checked_add(8)? - 7;
                let term = l.0.max(self.max_term);
                for _ in 0..good {
                    let p = self.pay();
                    es.push(((term, idx), p));
                    idx += 1;
                }
                let p = self.pay();
                es.push(((term, idx + 1), p)); // gap
                let p = self.pay();
                es.push(((term, idx + 2), p));
                // model applies the good prefix
                for (id, p) in es.iter() {
                    if self.m.append_one(*id, p.build()).is_err() {
                        break;
                    }
                }
                self.max_term = self.max_term.max(term);
                Some(Op::Append(es))
            }
        }
    }

    /// update_state moving `last` back (or forth) without touching the entries
    fn gen_update_last(&mut self) -> Op {
        let l = match self.rng.below(4) {
            0 => None,
            1 => self.m.st.last.map(|l| (l.0, l.1.saturating_sub(1 + self.rng.below(2)))),
            2 => self.m.st.purged,
            _ => self.m.st.last.map(|l| (l.0, l.1.saturating_add(1))),
        };
        self.m.st.last = l;
        Op::UpdateLast(l)
    }

    /// Boundary / hostile arguments (C16): may be accepted or rejected; the model decides.
    fn gen_hostile(&mut self) -> Op {
        let l = self.m.st.last.unwrap_or((0, 0));
        let p = self.m.st.purged.unwrap_or((0, 0));
        let around = |rng: &mut Rng| -> u64 {
            match rng.below(10) {
                0 => 0,
                1 => 1,
                2 => u64::MAX,
                3 => u64::MAX - 1,
                4 => l.1,
                5 => l.1.saturating_add(1),
                6 => l.1.saturating_sub(1),
                7 => p.1,
                8 => p.1.saturating_add(1),
                _ => p.1.saturating_sub(1),
            }
        };
        match self.rng.below(11) {
            8 => Op::Append(vec![]), // an empty batch
            9 | 10 => self.gen_update_last(),
            0 | 1 => {
                let a = around(self.rng);
                let b = around(self.rng);
                Op::Read(a, b)
            }
            2 | 3 => {
                let i = around(self.rng);
                let _ = self.m.truncate(i);
                Op::Truncate(i)
            }
            4 => {
                // purge at hostile indexes; keep away from u64::MAX-1.. unless explicitly hostile
                let i = around(self.rng);
                let id = (l.0, i);
                self.m.purge(id);
                Op::Purge(id)
            }
            5 => {
                let i = around(self.rng);
                let id = (*self.rng.pick(&[0u64, l.0, u64::MAX]), i);
                let _ = self.m.commit(id);
                Op::Commit(id)
            }
            6 => {
                let i = around(self.rng);
                let id = (*self.rng.pick(&[0u64, l.0, l.0.saturating_add(1), u64::MAX]), i);
                let pay = self.pay();
                let _ = self.m.append_one(id, pay.build());
                Op::Append(vec![(id, pay)])
            }
            _ => {
                let v = (*self.rng.pick(&[0u64, 1, u64::MAX]), *self.rng.pick(&[0u64, u64::MAX]));
                let _ = self.m.save_vote(v);
                Op::Vote(v)
            }
        }
    }
}

pub fn gen_faults(rng: &mut Rng, mode: FaultMode, est_calls: u32) -> Vec<Fault> {
    if mode == FaultMode::None {
        return vec![];
    }
    if mode == FaultMode::Transparent {
        let n = rng.range(2, 8);
        let mut out = vec![];
        for _ in 0..n {
            let call = *rng.pick(&[Call::Write, Call::Read, Call::Read, Call::Pread, Call::Pread]);
            let span = match call {
                Call::Write => est_calls.max(4),
                _ => est_calls.max(4) * 3,
            };
            let effect = if rng.chance(50) { Effect::Short } else { Effect::Errno(libc::EINTR) };
            out.push(Fault { call, nth: rng.below(span as u64) as u32, effect, sticky: false });
        }
        // slow disk: some calls take simulated time (matters only to code with deadlines)
        for _ in 0..rng.range(1, 4) {
            let call = *rng.pick(&[Call::Unlink, Call::Unlink, Call::Fdatasync, Call::Write, Call::Create]);
            let span = match call {
                Call::Unlink | Call::Create => (est_calls / 3).max(2),
                _ => est_calls.max(4),
            };
            out.push(Fault { call, nth: rng.below(span as u64) as u32, effect: Effect::Delay(*rng.pick(&[5u32, 200, 1500, 5000, 60_000])), sticky: rng.chance(30) });
        }
        return out;
    }
    let n = *rng.pick(&[1u64, 1, 1, 2, 2, 3]);
    let mut out = vec![];
    // at most two classes per run
    let classes: Vec<Call> = match mode {
        FaultMode::WriteSync => vec![Call::Write, Call::Fdatasync],
        _ => vec![Call::Write, Call::Fdatasync, Call::Create, Call::Unlink, Call::Pread, Call::Read, Call::Fsync, Call::Ftruncate, Call::Open],
    };
    let c1 = *rng.pick(&classes);
    let c2 = *rng.pick(&classes);
    for _ in 0..n {
        let call = if rng.chance(60) { c1 } else { c2 };
        let span = match call {
            Call::Write | Call::Fdatasync => est_calls.max(4),
            Call::Read | Call::Pread => est_calls.max(4) * 2,
            Call::Create | Call::Open => (est_calls / 3).max(3),
            _ => (est_calls / 4).max(2),
        };
        let nth = rng.below(span as u64) as u32;
        let effect = match call {
            Call::Write => match rng.below(6) {
                0 => Effect::Short,
                1 => Effect::Errno(libc::EINTR),
                2 => Effect::Errno(libc::EIO),
                3 => Effect::Errno(libc::ENOSPC),
                4 => Effect::PartialThenErr(libc::ENOSPC),
                _ => Effect::PartialThenErr(libc::EIO),
            },
            Call::Read | Call::Pread => match rng.below(3) {
                0 => Effect::Short,
                1 => Effect::Errno(libc::EINTR),
                _ => Effect::Errno(libc::EIO),
            },
            Call::Create | Call::Open => Effect::Errno(*rng.pick(&[libc::EMFILE, libc::ENOSPC, libc::EACCES])),
            Call::Unlink => Effect::Errno(*rng.pick(&[libc::EIO, libc::ENOENT])),
            _ => Effect::Errno(libc::EIO),
        };
        let sticky = matches!(effect, Effect::Errno(e) if e == libc::ENOSPC || e == libc::EIO) && rng.chance(15);
        out.push(Fault { call, nth, effect, sticky });
    }
    out
}

/// Generate a complete spec for run `run_seed` of property `prop`.
pub fn gen_spec(prop: &str, run_seed: u64, p: &Profile) -> Spec {
    let mut rng = Rng::new(run_seed);
    let cfg = gen_cfg(&mut rng, p);
    let nops = rng.range(p.nops.0, p.nops.1);
    // swarm: per-run weights
    let mut w = |rng: &mut Rng, choices: &[u64]| *rng.pick(choices);
    let w_append = w(&mut rng, &[4, 8, 12]);
    let w_vote = w(&mut rng, &[0, 1, 2]);
    let w_trunc = w(&mut rng, &[0, 1, 2, 4]);
    let w_purge = if p.purge_heavy { w(&mut rng, &[3, 5, 8]) } else { w(&mut rng, &[0, 1, 2, 3]) };
    let w_commit = w(&mut rng, &[0, 1, 2]);
    let w_ud = w(&mut rng, &[0, 1, 1]);
    let w_flush = if p.flush_heavy { w(&mut rng, &[6, 10, 14]) } else { w(&mut rng, &[1, 3, 6]) };
    let w_flush_none = if p.flush_none_heavy { w(&mut rng, &[1, 2, 4]) } else { w(&mut rng, &[0, 0, 1]) };
    let w_read = w(&mut rng, &[0, 1, 3]);
    let w_stat = w(&mut rng, &[0, 1]);
    let w_dump = if p.readers { w(&mut rng, &[1, 2, 3]) } else { w(&mut rng, &[0, 0, 1]) };
    let w_restart = if p.restarts { w(&mut rng, &[1, 2, 3]) } else { 0 };
    let w_race = if p.race_restart { w(&mut rng, &[1, 2]) } else { 0 };
    let w_rej = if p.rejected { w(&mut rng, &[2, 4, 6]) } else { 0 };
    let w_host = if p.hostile { w(&mut rng, &[2, 4, 6]) } else { 0 };
    let w_readers = if p.readers { w(&mut rng, &[1, 2]) } else { 0 };
    let w_idle = if p.wait_idle { w(&mut rng, &[0, 1, 2]) } else { 0 };
    let w_quiesce = w(&mut rng, &[0, 0, 1]);
    let w_update = if p.update_state { w(&mut rng, &[1, 2]) } else { 0 };
    let wait_pct = if p.flush_heavy { *rng.pick(&[70u64, 90, 100]) } else { *rng.pick(&[20u64, 50, 80, 100]) };
    let weights = [
        w_append, w_vote, w_trunc, w_purge, w_commit, w_ud, w_flush, w_flush_none, w_read, w_stat, w_dump, w_restart, w_race, w_rej, w_host,
        w_readers, w_idle, w_quiesce, w_update,
    ];

    let lower_term = p.lower_term && rng.chance(40);
    let mut g = G { rng: &mut rng, m: Model::default(), next_tag: 0, cur_term: 1, max_term: 1, lower_term, used_lower_term: false, big: p.big_payloads, huge: p.huge_payloads, removed_term: None };
    let mut ops = vec![];
    while (ops.len() as u64) < nops {
        let k = g.rng.weighted(&weights);
        let op = match k {
            0 => Some(g.gen_append()),
            1 => Some(g.gen_vote()),
            2 => g.gen_truncate(),
            3 => g.gen_purge(p.purge_heavy),
            4 => g.gen_commit(),
            5 => Some(g.gen_user_data()),
            6 => Some(Op::Flush { wait: g.rng.chance(wait_pct) }),
            7 => Some(Op::FlushNone),
            8 => {
                let lo = g.m.st.purged.map(|x| x.1).unwrap_or(0).saturating_sub(1);
                let hi = g.m.st.last.map(|x| x.1).unwrap_or(0).saturating_add(2);
                let a = g.rng.range(lo, hi);
                let b = g.rng.range(a, hi.saturating_add(1));
                Some(if g.rng.chance(25) { Op::Read(0, u64::MAX) } else { Op::Read(a, b) })
            }
            9 => Some(Op::Stat),
            10 => Some(match g.rng.below(4) {
                0 => Op::Dump,
                1 => Op::DumpIter,
                2 => Op::Snapshot,
                _ => Op::SnapshotIter,
            }),
            11 => Some(Op::Restart(gen_cfg(g.rng, p))),
            12 => Some(if g.rng.chance(30) { Op::PanicRestart(gen_cfg(g.rng, p)) } else { Op::RaceRestart(gen_cfg(g.rng, p)) }),
            13 => g.gen_rejected(),
            14 => Some(g.gen_hostile()),
            15 => Some(Op::Readers { n: g.rng.range(1, 3) as u8, rounds: g.rng.range(1, 3) as u8 }),
            16 => Some(Op::WaitIdle),
            18 => Some(g.gen_update_last()),
            _ => Some(Op::Quiesce),
        };
        if let Some(op) = op {
            // an empty append batch is useless
            if matches!(&op, Op::Append(es) if es.is_empty()) && k != 14 {
                continue;
            }
            ops.push(op);
        } else if g.m.entries.is_empty() && g.rng.chance(50) {
            ops.push(g.gen_append());
        }
    }
    if p.final_flush {
        ops.push(Op::Flush { wait: true });
    }
    let used_lower = g.used_lower_term;
    let nwrites = ops.iter().filter(|o| o.is_write() || matches!(o, Op::Flush { .. })).count() as u32;
    let faults = gen_faults(&mut rng, p.faults, nwrites.max(6));
    let sched = match rng.below(10) {
        0 => Sched::Default,
        _ => {
            let mut policy = gen_policy(&mut rng);
            if rng.chance(p.eager_worker_pct) {
                policy.p_switch = *rng.pick(&[60u8, 80, 95]);
                policy.w_worker = 32;
                policy.starve_pm = 0;
            }
            Sched::Prng { seed: rng.next(), policy }
        }
    };
    let flush_batch = *rng.pick(&[1usize, 2, 3, 1024, 1024]);
    Spec { prop: prop.to_string(), run_seed, cfg, ops, sched, faults, flush_batch, lower_term_reappend: used_lower }
}

/// A short workload to run on a recovered store (C05): appends, vote, commit, purge, flush+ack,
/// a clean restart, more appends, flush+ack. Monotone terms, starting from `model`.
pub fn gen_continuation(rng: &mut Rng, model: &Model) -> Vec<Op> {
    let max_term = model.entries.values().map(|e| e.0 .0).max().unwrap_or(0).max(model.st.last.map(|l| l.0).unwrap_or(0)).max(model.st.purged.map(|l| l.0).unwrap_or(0));
    let mut g = G { rng, m: model.clone(), next_tag: 900_000, cur_term: max_term.saturating_add(1), max_term: max_term.saturating_add(1), lower_term: false, used_lower_term: false, big: false, huge: false, removed_term: None };
    let mut ops = vec![];
    ops.push(g.gen_append());
    if g.rng.chance(50) {
        ops.push(g.gen_vote());
    }
    if g.rng.chance(50) {
        if let Some(o) = g.gen_commit() {
            ops.push(o);
        }
    }
    if g.rng.chance(40) {
        if let Some(o) = g.gen_truncate() {
            ops.push(o);
        }
    }
    ops.push(g.gen_append());
    if g.rng.chance(60) {
        if let Some(o) = g.gen_purge(true) {
            ops.push(o);
        }
    }
    ops.push(Op::Flush { wait: true });
    let mut cfg = Cfg::plain();
    cfg.chunk_max_records = Some(*g.rng.pick(&[1usize, 2, 3, 5, 1000]));
    ops.push(Op::Restart(cfg));
    ops.push(g.gen_append());
    ops.push(Op::Flush { wait: true });
    ops.push(Op::Read(0, u64::MAX));
    ops
}
