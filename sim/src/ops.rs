//! Operations, per-open configuration knobs and run specifications (everything explicit, so a
//! spec is a replay file: no PRNG is needed to re-execute it).

use serde::{Deserialize, Serialize};

use crate::core::{Fault, Policy};
use crate::model::{LogId, Vote};

/// Payload = unique tag + filler, kept symbolic so that replay files stay small.
#[derive(Clone, Debug, PartialEq, Eq, Serialize, Deserialize)]
pub struct Pay {
    pub tag: u32,
    pub fill: u32,
    #[serde(default)]
    pub empty: bool,
}

impl Pay {
    pub fn build(&self) -> String {
        if self.empty {
            return String::new();
        }
        let mut s = format!("w{}:", self.tag);
        let fill = self.fill as usize;
        s.reserve(fill);
        for i in 0..fill {
            s.push((b'a' + ((i as u32 + self.tag) % 26) as u8) as char);
        }
        s
    }
}

#[derive(Clone, Debug, PartialEq, Eq, Serialize, Deserialize)]
pub struct Cfg {
    pub chunk_max_records: Option<usize>,
    pub chunk_max_size: Option<usize>,
    pub read_buffer_size: Option<usize>,
    pub log_cache_max_items: Option<usize>,
    pub log_cache_capacity: Option<usize>,
    pub truncate_incomplete_record: Option<bool>,
}

impl Cfg {
    pub fn plain() -> Cfg {
        Cfg {
            chunk_max_records: None,
            chunk_max_size: None,
            read_buffer_size: None,
            log_cache_max_items: None,
            log_cache_capacity: None,
            truncate_incomplete_record: None,
        }
    }
    pub fn to_config(&self, dir: &str) -> std::sync::Arc<raft_log::Config> {
        let mut c = raft_log::Config::new(dir);
        c.chunk_max_records = self.chunk_max_records;
        c.chunk_max_size = self.chunk_max_size;
        c.read_buffer_size = self.read_buffer_size;
        c.log_cache_max_items = self.log_cache_max_items;
        c.log_cache_capacity = self.log_cache_capacity;
        c.truncate_incomplete_record = self.truncate_incomplete_record;
        std::sync::Arc::new(c)
    }
}

#[derive(Clone, Debug, PartialEq, Eq, Serialize, Deserialize)]
pub enum Op {
    Vote(Vote),
    Append(Vec<(LogId, Pay)>),
    Truncate(u64),
    Purge(LogId),
    Commit(LogId),
    UserData(Option<String>),
    /// update_state(log_state().clone() with set_last(x)): a whole-state record that moves `last`
    UpdateLast(Option<LogId>),
    /// flush with a callback; `wait` = block (in simulated time) until the ack
    Flush { wait: bool },
    FlushNone,
    Read(u64, u64),
    Stat,
    /// dump_data().iter() over everything
    DumpIter,
    /// take dump_data() now and keep it
    Snapshot,
    /// iterate the snapshot taken earlier: it must still yield what was live when it was taken
    SnapshotIter,
    /// RefDump::write_to_string()
    Dump,
    /// flush+ack, drop, quiesce old worker, open with a new config
    Restart(Cfg),
    /// drop WITHOUT quiescing the old worker, open immediately (S2)
    RaceRestart(Cfg),
    /// like RaceRestart, but the store is dropped by a panic unwinding through its owner
    PanicRestart(Cfg),
    /// wait_worker_idle() + drain_cache_evictable()
    WaitIdle,
    /// let the worker run until it is idle (harness-level quiesce)
    Quiesce,
    /// start a reader thread doing `n` full-range reads through &RaftLog
    Readers { n: u8, rounds: u8 },
    /// C13: contender threads racing to open / dump / drop the same directory
    Contenders { scripts: Vec<Vec<CAction>> },
}

#[derive(Clone, Debug, PartialEq, Eq, Serialize, Deserialize)]
pub struct CAction {
    /// open a Dump instead of a RaftLog
    pub dump: bool,
    /// scheduler steps to hold the directory when the open succeeded
    pub hold: u8,
    /// append + flush(wait) while owning (RaftLog only)
    pub write: bool,
    /// idle steps before the attempt
    pub pause: u8,
}

impl Op {
    pub fn is_write(&self) -> bool {
        matches!(self, Op::Vote(_) | Op::Append(_) | Op::Truncate(_) | Op::Purge(_) | Op::Commit(_) | Op::UserData(_) | Op::UpdateLast(_))
    }
    pub fn short(&self) -> String {
        match self {
            Op::Vote(v) => format!("vote{v:?}"),
            Op::Append(es) => format!(
                "append[{}]",
                es.iter().map(|(id, p)| format!("{}-{}:{}", id.0, id.1, if p.empty { 0 } else { p.fill as usize + 3 })).collect::<Vec<_>>().join(",")
            ),
            Op::Truncate(i) => format!("truncate({i})"),
            Op::Purge(id) => format!("purge{id:?}"),
            Op::Commit(id) => format!("commit{id:?}"),
            Op::UserData(d) => format!("user_data({})", d.as_ref().map(|s| s.len() as i64).unwrap_or(-1)),
            Op::UpdateLast(l) => format!("update_state(last={l:?})"),
            Op::Flush { wait } => format!("flush(wait={wait})"),
            Op::FlushNone => "flush(None)".into(),
            Op::Read(a, b) => format!("read({a},{b})"),
            Op::Stat => "stat".into(),
            Op::DumpIter => "dump_iter".into(),
            Op::Snapshot => "snapshot".into(),
            Op::SnapshotIter => "snapshot_iter".into(),
            Op::Dump => "dump".into(),
            Op::Restart(c) => format!("restart(rec={:?},size={:?},rb={:?},ci={:?},cc={:?})", c.chunk_max_records, c.chunk_max_size, c.read_buffer_size, c.log_cache_max_items, c.log_cache_capacity),
            Op::RaceRestart(_) => "race_restart".into(),
            Op::PanicRestart(_) => "panic_restart".into(),
            Op::WaitIdle => "wait_idle".into(),
            Op::Quiesce => "quiesce".into(),
            Op::Readers { n, rounds } => format!("readers({n}x{rounds})"),
            Op::Contenders { scripts } => format!(
                "contenders[{}]",
                scripts.iter().map(|sc| sc.iter().map(|a| format!("{}{}h{}p{}", if a.dump { "D" } else { "O" }, if a.write { "w" } else { "" }, a.hold, a.pause)).collect::<Vec<_>>().join(",")).collect::<Vec<_>>().join(" | ")
            ),
        }
    }
}

#[derive(Clone, Debug, PartialEq, Eq, Serialize, Deserialize)]
pub enum Sched {
    Default,
    Prng { seed: u64, policy: Policy },
    Tape(Vec<u8>),
}

/// One simulated run, fully explicit.
#[derive(Clone, Debug, PartialEq, Eq, Serialize, Deserialize)]
pub struct Spec {
    pub prop: String,
    pub run_seed: u64,
    pub cfg: Cfg,
    pub ops: Vec<Op>,
    pub sched: Sched,
    pub faults: Vec<Fault>,
    pub flush_batch: usize,
    /// history family flags
    #[serde(default)]
    pub lower_term_reappend: bool,
}

impl Spec {
    /// Faults other than the transparent kinds (short transfers, EINTR), i.e. real errors.
    pub fn has_real_faults(&self) -> bool {
        self.faults.iter().any(|f| !matches!(f.effect, crate::core::Effect::Short | crate::core::Effect::Errno(libc::EINTR) | crate::core::Effect::Delay(_)))
    }
}
