//! Stored-byte faults (C09) and torn / zero-filled tails (C10), applied to images the store
//! itself produced (captured at quiescent points of simulated runs) and handed to the real
//! `RaftLog::open` running under the simulator.

use std::collections::BTreeMap;

use raft_log::codeq::Decode;
use raft_log::WALRecord;
use serde::{Deserialize, Serialize};

use crate::crash::{eval_image, match_prefix, Outcome};
use crate::exec::{RunOut, Violation};
use crate::model::{Model, TT};
use crate::ops::Spec;
use crate::rng::Rng;
use crate::shadow::{parse_records, Disk};

#[derive(Clone, Debug, PartialEq, Eq, Serialize, Deserialize)]
pub enum Mutation {
    /// XOR one stored byte
    Flip { file: String, pos: usize, xor: u8 },
    /// remove a whole chunk file
    RemoveChunk { file: String },
    /// cut the file at this length
    Cut { file: String, len: usize },
    /// keep the first `from` bytes, then `len` zero bytes
    ZeroTail { file: String, from: usize, len: usize },
    /// flip a byte of a closed chunk *after* open, then read everything with the cache disabled
    LiveFlip { file: String, pos: usize, xor: u8 },
}

#[derive(Clone, Debug, PartialEq, Eq, Serialize, Deserialize)]
pub struct MutSpec {
    /// which quiescent point of the run provides the image
    pub q: usize,
    pub mutation: Mutation,
    pub truncate: Option<bool>,
}

#[derive(Default)]
pub struct MutStats {
    pub images: u64,
    pub mutations: u64,
    pub by_kind: BTreeMap<String, u64>,
    pub refused: u64,
    pub opened_equal: u64,
    pub eof_class: u64,
    pub detectable_class: u64,
    pub untouched_checks: u64,
    pub continuations: u64,
    pub shapes: std::collections::BTreeSet<u64>,
}

fn viol(prop: &str, class: impl Into<String>, detail: impl Into<String>) -> Violation {
    Violation { prop: prop.to_string(), class: class.into(), detail: detail.into(), op_index: -1 }
}

pub fn apply(img: &Disk, m: &Mutation) -> Disk {
    let mut d = img.clone();
    match m {
        Mutation::Flip { file, pos, xor } => {
            if let Some(f) = d.files.get_mut(file) {
                if *pos < f.data.len() {
                    f.data[*pos] ^= *xor;
                }
            }
        }
        Mutation::RemoveChunk { file } => {
            d.files.remove(file);
        }
        Mutation::Cut { file, len } => {
            if let Some(f) = d.files.get_mut(file) {
                f.data.truncate(*len);
            }
        }
        Mutation::ZeroTail { file, from, len } => {
            if let Some(f) = d.files.get_mut(file) {
                f.data.truncate(*from);
                f.data.extend(std::iter::repeat(0u8).take(*len));
            }
        }
        Mutation::LiveFlip { .. } => {}
    }
    d.all_durable()
}

/// Independent, *structural* classification of a damaged record (harness Types instance:
/// ids/votes = two big-endian u64, strings = u32 length + bytes, options = 1-byte tag, State =
/// version byte + five options, every record = u32 type + body + 8-byte checksum). It does not
/// consult the store's decoder for the error kind: a record is "eof" iff a correct decoder would
/// need bytes beyond the end of the file to finish it (indistinguishable from a torn tail),
/// "detectable" if the damage is visible within the file (bad type, tag, version, utf-8, checksum),
/// "benign" if the record still decodes.
pub fn classify_record(data: &[u8], start: usize) -> &'static str {
    struct Cur<'a> {
        d: &'a [u8],
        p: usize,
    }
    impl Cur<'_> {
        fn take(&mut self, n: usize) -> Option<&[u8]> {
            if self.p.checked_add(n)? > self.d.len() {
                return None;
            }
            let s = &self.d[self.p..self.p + n];
            self.p += n;
            Some(s)
        }
        fn u32(&mut self) -> Option<u32> {
            self.take(4).map(|b| u32::from_be_bytes([b[0], b[1], b[2], b[3]]))
        }
        fn u8(&mut self) -> Option<u8> {
            self.take(1).map(|b| b[0])
        }
    }
    enum R {
        Eof,
        Bad,
    }
    fn opt_id(c: &mut Cur) -> Result<(), R> {
        match c.u8().ok_or(R::Eof)? {
            0 => Ok(()),
            1 => c.take(16).map(|_| ()).ok_or(R::Eof),
            _ => Err(R::Bad),
        }
    }
    fn string(c: &mut Cur) -> Result<(), R> {
        let n = c.u32().ok_or(R::Eof)? as usize;
        c.take(n).map(|_| ()).ok_or(R::Eof)
    }
    fn walk(c: &mut Cur) -> Result<(), R> {
        match c.u32().ok_or(R::Eof)? {
            0 | 2 | 4 => c.take(16).map(|_| ()).ok_or(R::Eof)?,
            1 => {
                c.take(16).ok_or(R::Eof)?;
                string(c)?;
            }
            3 => opt_id(c)?,
            5 => {
                if c.u8().ok_or(R::Eof)? != 1 {
                    return Err(R::Bad);
                }
                for _ in 0..4 {
                    opt_id(c)?;
                }
                match c.u8().ok_or(R::Eof)? {
                    0 => {}
                    1 => string(c)?,
                    _ => return Err(R::Bad),
                }
            }
            _ => return Err(R::Bad),
        }
        c.take(8).map(|_| ()).ok_or(R::Eof)
    }
    let mut c = Cur { d: data, p: start };
    match walk(&mut c) {
        Err(R::Eof) => "eof",
        Err(R::Bad) => "detectable",
        Ok(()) => {
            let mut sl = &data[start..c.p];
            if WALRecord::<TT>::decode(&mut sl).is_ok() {
                "benign"
            } else {
                "detectable"
            }
        }
    }
}

/// Class of a flip at `pos` given the record boundaries of the undamaged file.
pub fn classify_flip(mutated: &[u8], bounds: &[usize], pos: usize) -> &'static str {
    let start = bounds.iter().rev().find(|b| **b <= pos).copied().unwrap_or(0);
    classify_record(mutated, start)
}

/// Reference replay of a journal image: apply exactly the records that are completely present,
/// file by file in name order (a head State record replaces the state).
pub fn replay_journal(img: &Disk) -> Model {
    let mut m = Model::default();
    for (_s, _n, f) in img.chunks() {
        for (_a, _b, r) in parse_records(&f.data).recs {
            match r {
                WALRecord::SaveVote(v) => {
                    let _ = m.save_vote(v);
                }
                WALRecord::Append(id, p) => {
                    // a snapshot may have set `last` beyond what the retained entries show
                    m.entries.insert(id.1, (id, p));
                    m.st.last = Some(id);
                }
                WALRecord::Commit(id) => {
                    let _ = m.commit(id);
                }
                WALRecord::TruncateAfter(a) => m.truncate_after(a),
                WALRecord::PurgeUpto(id) => {
                    m.purge(id);
                }
                WALRecord::State(s) => {
                    m.st = crate::model::MState { vote: s.vote().cloned(), last: s.last().cloned(), committed: s.committed().cloned(), purged: s.purged().cloned(), user_data: s.user_data.clone() };
                }
            }
        }
    }
    m
}

struct Ctx<'a> {
    /// replay of one explicit experiment: never skip the sampled parts
    always_continue: bool,
    prop: &'a str,
    out: &'a RunOut,
    prefix: Vec<Model>,
    img_dir: &'a str,
}

/// The image, its chunk list, and the model prefix bookkeeping for a quiescent point.
struct ImgInfo {
    img: Disk,
    chunks: Vec<(u64, String, usize)>, // (start, name, len)
    /// number of accepted records before the oldest retained chunk's first non-head record
    base: usize,
    /// per chunk: (record boundaries incl. 0 and len, number of non-head records before this chunk)
    layout: Vec<(Vec<usize>, usize)>,
    nrec: usize,
}

fn image_info(out: &RunOut, qi: usize) -> Option<ImgInfo> {
    let q = out.quiescent.get(qi)?;
    let img = Disk::replay(&Disk::default(), &out.ep.trace, q.t).all_durable();
    let mut chunks = vec![];
    let mut layout = vec![];
    let mut nonhead = 0usize;
    for (start, name, f) in img.chunks() {
        let p = parse_records(&f.data);
        if p.recs.is_empty() || p.recs.last().map(|r| r.1) != Some(f.data.len()) {
            return None; // not a clean image (C11's business)
        }
        let mut b = vec![0usize];
        b.extend(p.recs.iter().map(|r| r.1));
        layout.push((b, nonhead));
        nonhead += p.recs.len() - 1;
        chunks.push((start, name.clone(), f.data.len()));
    }
    if chunks.is_empty() || nonhead > q.nrec {
        return None;
    }
    Some(ImgInfo { img, chunks, base: q.nrec - nonhead, layout, nrec: q.nrec })
}

pub fn enumerate_c09(info: &ImgInfo, qi: usize, thorough: bool, rng: &mut Rng) -> Vec<MutSpec> {
    let mut v = vec![];
    let n = info.chunks.len();
    for (ci, (_s, name, len)) in info.chunks.iter().enumerate() {
        let positions: Vec<usize> = if thorough && *len <= 8192 {
            (0..*len).collect()
        } else if thorough {
            // a file with a huge record: every byte of the first and last 2 KiB, 2000 sampled in between
            let mut p: Vec<usize> = (0..2048).chain(*len - 2048..*len).collect();
            p.extend((0..2000).map(|_| rng.below(*len as u64) as usize));
            p.sort();
            p.dedup();
            p
        } else {
            let k = (48 / n.max(1)).max(8);
            let mut p: Vec<usize> = (0..k).map(|_| rng.below(*len as u64) as usize).collect();
            // always some positions in the first record's type/length fields and the last record
            p.push(0);
            p.push(3);
            p.push(len - 1);
            p.sort();
            p.dedup();
            p
        };
        for pos in positions {
            let xors: Vec<u8> = if thorough { vec![0x01, 0x02, 0x04, 0x08, 0x10, 0x20, 0x40, 0x80, 0xFF] } else { vec![0x01, 0x80, (rng.below(255) + 1) as u8] };
            for x in xors {
                v.push(MutSpec { q: qi, mutation: Mutation::Flip { file: name.clone(), pos, xor: x }, truncate: None });
            }
            if thorough {
                // substitutions 0x00 / 0xFF as XORs of the current value
                let cur = info.img.files[name].data[pos];
                for val in [0x00u8, 0xFF] {
                    if cur != val && ![0x01u8, 0x02, 0x04, 0x08, 0x10, 0x20, 0x40, 0x80, 0xFF].contains(&(cur ^ val)) {
                        v.push(MutSpec { q: qi, mutation: Mutation::Flip { file: name.clone(), pos, xor: cur ^ val }, truncate: None });
                    }
                }
            }
        }
        // middle chunk removed
        if ci > 0 && ci + 1 < n {
            v.push(MutSpec { q: qi, mutation: Mutation::RemoveChunk { file: name.clone() }, truncate: None });
        }
        // live flip in a closed chunk
        if ci + 1 < n {
            let k = if thorough { 24 } else { 3 };
            for _ in 0..k {
                let pos = rng.below(*len as u64) as usize;
                v.push(MutSpec { q: qi, mutation: Mutation::LiveFlip { file: name.clone(), pos, xor: *rng.pick(&[0x01u8, 0x10, 0x80, 0xFF]) }, truncate: None });
            }
        }
    }
    v
}

pub fn enumerate_c10(info: &ImgInfo, qi: usize, thorough: bool, rng: &mut Rng) -> Vec<MutSpec> {
    let mut v = vec![];
    let (_s, name, len) = info.chunks.last().unwrap().clone();
    let bounds = &info.layout.last().unwrap().0;
    for tr in [Some(true), Some(false)] {
        // every cut position (files are small)
        let cuts: Vec<usize> = if (thorough && len <= 8192) || len <= 400 {
            (0..=len).collect()
        } else {
            let mut c: Vec<usize> = (0..if thorough { 2000 } else { 200 }).map(|_| rng.below(len as u64 + 1) as usize).collect();
            for b in bounds {
                for d in [b.wrapping_sub(1), *b, b + 1] {
                    if d <= len {
                        c.push(d);
                    }
                }
            }
            c.sort();
            c.dedup();
            c
        };
        for c in cuts {
            if tr == Some(false) && !thorough && rng.chance(60) {
                continue;
            }
            v.push(MutSpec { q: qi, mutation: Mutation::Cut { file: name.clone(), len: c }, truncate: tr });
        }
        for b in bounds {
            let lens: Vec<usize> = if thorough {
                vec![1, 2, 3, 7, 8, 27, 28, 29, 1023, 1024, 1025, 33 * 1024, rng.range(30, 5000) as usize]
            } else {
                vec![1, *rng.pick(&[2usize, 3, 7, 8, 27, 28, 29]), *rng.pick(&[1023usize, 1024, 1025]), *rng.pick(&[33 * 1024usize, 70 * 1024]), rng.range(30, 5000) as usize]
            };
            for l in lens {
                v.push(MutSpec { q: qi, mutation: Mutation::ZeroTail { file: name.clone(), from: *b, len: l }, truncate: tr });
            }
        }
    }
    v
}

fn non_newest_identical(before: &Disk, after: &Disk) -> Option<String> {
    let ch = before.chunks();
    for (i, (_s, name, f)) in ch.iter().enumerate() {
        if i + 1 == ch.len() {
            break;
        }
        match after.files.get(*name) {
            None => return Some(format!("{name} disappeared")),
            Some(a) if a.data != f.data => return Some(format!("{name}: {} bytes before, {} bytes after", f.data.len(), a.data.len())),
            _ => {}
        }
    }
    None
}

fn all_identical(before: &Disk, after: &Disk) -> Option<String> {
    for (name, f) in &before.files {
        match after.files.get(name) {
            None => return Some(format!("{name} disappeared")),
            Some(a) if a.data != f.data => return Some(format!("{name}: {} bytes before, {} bytes after", f.data.len(), a.data.len())),
            _ => {}
        }
    }
    for name in after.files.keys() {
        if !before.files.contains_key(name) {
            return Some(format!("{name} appeared"));
        }
    }
    None
}

fn judge_one(cx: &Ctx, spec: &Spec, info: &ImgInfo, ms: &MutSpec, stats: &mut MutStats, rng: &mut Rng) -> Option<Violation> {
    let prop = cx.prop;
    let q = &cx.out.quiescent[ms.q];
    let mut cfg = q.cfg.clone();
    cfg.truncate_incomplete_record = ms.truncate;
    let truncate_on = ms.truncate.unwrap_or(true);
    stats.mutations += 1;
    let kind = match &ms.mutation {
        Mutation::Flip { .. } => "flip",
        Mutation::RemoveChunk { .. } => "remove-middle-chunk",
        Mutation::Cut { .. } => "cut",
        Mutation::ZeroTail { .. } => "zero-tail",
        Mutation::LiveFlip { .. } => "live-flip",
    };
    *stats.by_kind.entry(format!("{kind}{}", if ms.truncate == Some(false) { ":truncate-off" } else { "" })).or_default() += 1;
    let full = &cx.prefix[info.nrec];
    let newest_name = &info.chunks.last().unwrap().1;
    // an experiment that does not fit this image (e.g. replayed against a shrunk run) is void
    let fits = match &ms.mutation {
        Mutation::Flip { file, pos, .. } | Mutation::LiveFlip { file, pos, .. } => info.img.files.get(file).map(|f| *pos < f.data.len()).unwrap_or(false),
        Mutation::RemoveChunk { file } => info.img.files.contains_key(file),
        Mutation::Cut { file, len } => file == newest_name && *len <= info.chunks.last().unwrap().2,
        Mutation::ZeroTail { file, from, .. } => file == newest_name && info.layout.last().unwrap().0.contains(from),
    };
    if !fits {
        return None;
    }

    if let Mutation::LiveFlip { file, pos, xor } = &ms.mutation {
        // open the clean image with the cache disabled, damage a closed chunk, read everything
        cfg.log_cache_max_items = Some(0);
        cfg.log_cache_capacity = Some(0);
        let (res, rl) = eval_image(&info.img, &cfg, cx.img_dir, true);
        let Some(rl) = rl else {
            // the clean image did not open (episode already ended by eval_image): not this check's business
            let _ = res;
            return None;
        };
        crate::core::bypass(|| {
            let p = format!("{}/{}", cx.img_dir, file);
            if let Ok(mut d) = std::fs::read(&p) {
                if *pos < d.len() {
                    d[*pos] ^= *xor;
                    let _ = std::fs::write(&p, d);
                }
            }
        });
        let got = std::panic::catch_unwind(std::panic::AssertUnwindSafe(|| rl.read(0, u64::MAX).collect::<Vec<_>>()));
        drop(rl);
        crate::core::drain_threads();
        crate::core::end();
        let want = full.all();
        return match got {
            Err(p) => Some(viol(prop, format!("live-flip:panic:{}", crate::exec::panic_class(&crate::exec::last_panic_loc(), &crate::exec::panic_msg(&*p))), format!("read after flipping byte {pos} of closed chunk {file} panicked: {}", crate::exec::panic_msg(&*p)))),
            Ok(got) => {
                if got.len() != want.len() {
                    return Some(viol(prop, "live-flip:wrong-count", format!("read returned {} entries, {} were written", got.len(), want.len())));
                }
                for (g, w) in got.iter().zip(want.iter()) {
                    if let Ok(g) = g {
                        if g != w {
                            return Some(viol(prop, "live-flip:wrong-data", format!("after flipping byte {pos} of {file}, read returned {:?} for the entry written as {:?}", g.0, w.0)));
                        }
                    }
                }
                if got.iter().any(|g| g.is_err()) {
                    stats.refused += 1;
                } else {
                    stats.opened_equal += 1;
                }
                None
            }
        };
    }

    let img = apply(&info.img, &ms.mutation);
    stats.shapes.insert(crate::rng::mix(&img.files.values().map(|f| crate::rng::str_hash(&format!("{:?}", f.data.len())) ^ f.data.iter().take(64).fold(0u64, |a, b| a.wrapping_mul(31).wrapping_add(*b as u64))).collect::<Vec<_>>()));
    let (res, _) = eval_image(&img, &cfg, cx.img_dir, false);

    match &ms.mutation {
        Mutation::Flip { file, pos, .. } => {
            let ci = info.chunks.iter().position(|c| &c.1 == file).unwrap_or(0);
            let class = classify_flip(&img.files[file].data, &info.layout[ci].0, *pos);
            match class {
                "eof" => stats.eof_class += 1,
                _ => stats.detectable_class += 1,
            }
            let where_ = if file == newest_name { "newest" } else { "non-newest" };
            match &res.outcome {
                Outcome::Panicked { loc, msg } => Some(viol(prop, format!("corruption:panic:{class}:{where_}:{}", crate::exec::panic_class(loc, msg)), format!("open panicked at {loc} ({msg}) after {:?}", ms.mutation))),
                Outcome::Refused(_) => {
                    stats.refused += 1;
                    stats.untouched_checks += 1;
                    non_newest_identical(&img, &res.after).map(|d| viol(prop, format!("refused-open-modified-non-newest:{class}"), format!("open refused after {:?} but changed a non-newest chunk: {d}", ms.mutation)))
                }
                Outcome::Opened { state, entries, read_err } => {
                    if read_err.is_some() {
                        stats.refused += 1;
                        return None;
                    }
                    if *state == full.st && full.entries.values().zip(entries.iter()).all(|(a, b)| a == b) && full.entries.len() == entries.len() {
                        stats.opened_equal += 1;
                        None
                    } else {
                        Some(viol(
                            prop,
                            format!("corruption-absorbed:{class}:{where_}"),
                            format!("{:?} (record class {class}) -> open succeeded with state {:?} / {} entries, written was {:?} / {} entries", ms.mutation, state, entries.len(), full.st, full.entries.len()),
                        ))
                    }
                }
            }
        }
        Mutation::RemoveChunk { file } => match &res.outcome {
            Outcome::Panicked { loc, msg } => Some(viol(prop, "missing-chunk:panic", format!("open panicked at {loc} ({msg}) with middle chunk {file} removed"))),
            Outcome::Refused(_) => {
                stats.refused += 1;
                stats.untouched_checks += 1;
                non_newest_identical(&img, &res.after).map(|d| viol(prop, "refused-open-modified-non-newest:missing-chunk", format!("middle chunk {file} removed: open refused but changed another chunk: {d}")))
            }
            Outcome::Opened { state, entries, .. } => {
                if *state == full.st && full.entries.len() == entries.len() && full.entries.values().zip(entries.iter()).all(|(a, b)| a == b) {
                    // e.g. the removed chunk held nothing that is still needed - but the journal has a hole
                    Some(viol(prop, "missing-chunk:opened", format!("middle chunk {file} removed and open succeeded")))
                } else {
                    Some(viol(prop, "missing-chunk:absorbed", format!("middle chunk {file} removed and open succeeded with a different state ({} entries, written {})", entries.len(), full.entries.len())))
                }
            }
        },
        Mutation::Cut { len, .. } | Mutation::ZeroTail { from: len, .. } => {
            // C10: which records of the newest chunk are completely present?
            let (bounds, before) = info.layout.last().unwrap();
            let complete = bounds.iter().filter(|b| **b > 0 && **b <= *len).count(); // records incl. head
            let is_zero = matches!(ms.mutation, Mutation::ZeroTail { .. });
            let at_boundary = bounds.contains(len);
            let has_tail = is_zero || !at_boundary;
            let shape = if complete == 0 { "newest-has-0-records" } else { "newest-has-head" };
            let j = info.base + before + complete.saturating_sub(1);
            // "exactly the records that are completely present": reference replay of the image itself
            // (equal to the model prefix S_j whenever no purged chunk has been deleted)
            let want_m = replay_journal(&img);
            let want = &want_m;
            let what = if is_zero { "zero-tail" } else { "cut" };
            if !truncate_on && has_tail {
                // must be refused, files untouched
                return match &res.outcome {
                    Outcome::Refused(_) => {
                        stats.refused += 1;
                        stats.untouched_checks += 1;
                        all_identical(&img, &res.after).map(|d| viol(prop, format!("{what}:truncate-off:refused-but-modified"), format!("{:?} with truncation disabled: open refused but the files changed: {d}", ms.mutation)))
                    }
                    Outcome::Opened { .. } => Some(viol(prop, format!("{what}:truncate-off:opened"), format!("{:?} with truncation disabled: open succeeded although the newest chunk has an incomplete / zero tail", ms.mutation))),
                    Outcome::Panicked { loc, msg } => Some(viol(prop, format!("{what}:truncate-off:panic:{shape}:{}", crate::exec::panic_class(loc, msg)), format!("{:?} with truncation disabled: open panicked at {loc}: {msg}", ms.mutation))),
                };
            }
            match &res.outcome {
                Outcome::Panicked { loc, msg } => Some(viol(prop, format!("{what}:panic:{shape}:{}", crate::exec::panic_class(loc, msg)), format!("{:?}: open panicked at {loc}: {msg}", ms.mutation))),
                Outcome::Refused(e) => Some(viol(prop, format!("{what}:refused:{shape}:{}", e.split(':').take(2).collect::<Vec<_>>().join(":")), format!("{:?}: open refused: {e}", ms.mutation))),
                Outcome::Opened { state, entries, read_err } => {
                    if let Some(e) = read_err {
                        return Some(viol(prop, format!("{what}:recovered-read-err"), format!("{:?}: recovered store cannot read its entries: {e}", ms.mutation)));
                    }
                    let same = *state == want.st && want.entries.len() == entries.len() && want.entries.values().zip(entries.iter()).all(|(a, b)| a == b);
                    if !same {
                        let other = match_prefix(&cx.prefix, 0, cx.prefix.len() - 1, state, entries);
                        return Some(viol(
                            prop,
                            format!("{what}:wrong-prefix"),
                            format!("{:?}: {} records of the newest chunk are completely present (journal prefix S_{j}); replaying the complete records gives {:?} / {} entries, the store recovered {:?} / {} entries (= S_{:?})", ms.mutation, complete, want.st, want.entries.len(), state, entries.len(), other),
                        ));
                    }
                    stats.opened_equal += 1;
                    // subsequent writes continue from there (sampled)
                    if cx.always_continue || rng.chance(10) {
                        stats.continuations += 1;
                        let mut crng = Rng::new(crate::rng::mix(&[*len as u64, j as u64, 99]));
                        let ops = crate::gen::gen_continuation(&mut crng, want);
                        let cspec = Spec { prop: prop.to_string(), run_seed: *len as u64, cfg: cfg.clone(), ops, sched: crate::ops::Sched::Default, faults: vec![], flush_batch: 1024, lower_term_reappend: false };
                        let or = crate::exec::Oracles { prop: prop.to_string(), model_eq: true, restart_eq: true, ..Default::default() };
                        // on the very instance that performed the recovery
                        // cache pressure is C07's business: the continuation runs with large caches
                        let mut ccfg = cfg.clone();
                        ccfg.log_cache_max_items = None;
                        ccfg.log_cache_capacity = None;
                        let (_r2, kept) = eval_image(&img, &ccfg, cx.img_dir, true);
                        let Some(kept) = kept else { return None };
                        let cont = crate::exec::continue_on(kept, &cspec, &or, cx.img_dir, want.clone());
                        if let Some(mut v) = cont.violations.into_iter().next() {
                            if cx.out.family_lower {
                                v.class = v.class.replace("monotone-family", "lower-term-family");
                            }
                            return Some(viol(prop, format!("{what}:continuation:{}", v.class), format!("after recovering from {:?}: op #{}: {}", ms.mutation, v.op_index, v.detail)));
                        }
                    }
                    let _ = spec;
                    None
                }
            }
        }
        Mutation::LiveFlip { .. } => None,
    }
}

/// Run the mutation experiments of one run. `only` = replay of one explicit experiment.
pub fn check_run(prop: &str, spec: &Spec, out: &RunOut, thorough: bool, only: Option<&MutSpec>, rng: &mut Rng, img_dir: &str, stats: &mut MutStats) -> Vec<(Violation, MutSpec)> {
    let mut vs: Vec<(Violation, MutSpec)> = vec![];
    if out.caller_errors > 0 || out.aborted.is_some() || out.quiescent.is_empty() {
        return vs;
    }
    let cx = Ctx { always_continue: only.is_some(), prop, out, prefix: out.prefix_models(), img_dir };
    let qis: Vec<usize> = match only {
        Some(m) => vec![m.q],
        None => {
            // the last quiescent point always, plus one earlier if there is one
            let n = out.quiescent.len();
            let mut v = vec![n - 1];
            if n > 1 {
                v.push(rng.below(n as u64 - 1) as usize);
            }
            v
        }
    };
    let mut seen: Vec<String> = vec![];
    for qi in qis {
        let Some(info) = image_info(out, qi) else { continue };
        stats.images += 1;
        let specs: Vec<MutSpec> = match only {
            Some(m) => vec![m.clone()],
            None => {
                if prop == "C09" {
                    enumerate_c09(&info, qi, thorough, rng)
                } else {
                    enumerate_c10(&info, qi, thorough, rng)
                }
            }
        };
        for ms in specs {
            if let Some(v) = judge_one(&cx, spec, &info, &ms, stats, rng) {
                if !seen.contains(&v.class) {
                    seen.push(v.class.clone());
                    vs.push((v, ms));
                }
            }
        }
    }
    vs
}
