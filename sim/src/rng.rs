//! Own PRNG (no `rand`): splitmix64 seeding a xoshiro256** stream.
//! One integer decides everything; logging never draws from it.

#[derive(Clone, Debug)]
pub struct Rng {
    s: [u64; 4],
}

pub fn splitmix(x: &mut u64) -> u64 {
    *x = x.wrapping_add(0x9E3779B97F4A7C15);
    let mut z = *x;
    z = (z ^ (z >> 30)).wrapping_mul(0xBF58476D1CE4E5B9);
    z = (z ^ (z >> 27)).wrapping_mul(0x94D049BB133111EB);
    z ^ (z >> 31)
}

/// Mix several integers into one seed (order-sensitive).
pub fn mix(parts: &[u64]) -> u64 {
    let mut h = 0x243F6A8885A308D3u64;
    for p in parts {
        let mut x = h ^ p.wrapping_mul(0x9E3779B97F4A7C15);
        h = splitmix(&mut x);
    }
    h
}

pub fn str_hash(s: &str) -> u64 {
    let mut h = 0xcbf29ce484222325u64;
    for b in s.bytes() {
        h ^= b as u64;
        h = h.wrapping_mul(0x100000001b3);
    }
    h
}

impl Rng {
    pub fn new(seed: u64) -> Self {
        let mut x = seed;
        let s = [splitmix(&mut x), splitmix(&mut x), splitmix(&mut x), splitmix(&mut x)];
        Rng { s }
    }
    pub fn next(&mut self) -> u64 {
        let r = self.s[1].wrapping_mul(5).rotate_left(7).wrapping_mul(9);
        let t = self.s[1] << 17;
        self.s[2] ^= self.s[0];
        self.s[3] ^= self.s[1];
        self.s[1] ^= self.s[2];
        self.s[0] ^= self.s[3];
        self.s[2] ^= t;
        self.s[3] = self.s[3].rotate_left(45);
        r
    }
    /// Uniform in 0..n (n > 0).
    pub fn below(&mut self, n: u64) -> u64 {
        debug_assert!(n > 0);
        self.next() % n
    }
    pub fn range(&mut self, lo: u64, hi_incl: u64) -> u64 {
        if hi_incl <= lo {
            return lo;
        }
        let span = hi_incl - lo;
        if span == u64::MAX {
            return self.next();
        }
        lo + self.below(span + 1)
    }
    pub fn chance(&mut self, percent: u64) -> bool {
        self.below(100) < percent
    }
    pub fn pick<'a, T>(&mut self, xs: &'a [T]) -> &'a T {
        &xs[self.below(xs.len() as u64) as usize]
    }
    /// Weighted pick: returns index.
    pub fn weighted(&mut self, ws: &[u64]) -> usize {
        let total: u64 = ws.iter().sum();
        if total == 0 {
            return self.below(ws.len() as u64) as usize;
        }
        let mut r = self.below(total);
        for (i, w) in ws.iter().enumerate() {
            if r < *w {
                return i;
            }
            r -= *w;
        }
        ws.len() - 1
    }
    pub fn fork(&mut self) -> Rng {
        Rng::new(self.next())
    }
}
