//! Post-hoc trace analysers: C04 (acknowledgement soundness), C08 (chunk deletion), C11 (journal
//! layout at quiescent points). They look only at the totally ordered trace (fs events of all
//! threads + harness events), the shadow disk reconstructed from it, and the reference model.

use std::collections::{BTreeMap, BTreeSet};

use raft_log::WALRecord;

use crate::core::{Ev, FsOp, HEv};
use crate::exec::{MRec, RunOut, Violation};
use crate::model::{LogId, MState, Model, TT};
use crate::ops::Spec;
use crate::shadow::{parse_chunk_name, parse_records, Disk, LOCK};

fn state_eq<S>(m: &MState, vote: Option<&(u64, u64)>, last: Option<&LogId>, committed: Option<&LogId>, purged: Option<&LogId>, ud: &Option<S>) -> bool
where S: PartialEq<String> {
    m.vote.as_ref() == vote
        && m.last.as_ref() == last
        && m.committed.as_ref() == committed
        && m.purged.as_ref() == purged
        && match (&m.user_data, ud) {
            (None, None) => true,
            (Some(a), Some(b)) => b == a,
            _ => false,
        }
}

pub fn wal_state_eq(m: &MState, w: &WALRecord<TT>) -> bool {
    match w {
        WALRecord::State(st) => state_eq(m, st.vote(), st.last(), st.committed(), st.purged(), &st.user_data),
        _ => false,
    }
}

pub fn rec_matches(m: &MRec, w: &WALRecord<TT>) -> bool {
    match (m, w) {
        (MRec::Vote(v), WALRecord::SaveVote(x)) => v == x,
        (MRec::Append(id, p), WALRecord::Append(i, q)) => id == i && p == q,
        (MRec::TruncateAfter(a), WALRecord::TruncateAfter(b)) => a == b,
        (MRec::Purge(a), WALRecord::PurgeUpto(b)) => a == b,
        (MRec::Commit(a), WALRecord::Commit(b)) => a == b,
        (MRec::State(s), w @ WALRecord::State(_)) => wal_state_eq(s, w),
        _ => false,
    }
}

fn wal_short(w: &WALRecord<TT>) -> String {
    match w {
        WALRecord::SaveVote(v) => format!("SaveVote{v:?}"),
        WALRecord::Append(id, p) => format!("Append({id:?},{}B)", p.len()),
        WALRecord::Commit(id) => format!("Commit{id:?}"),
        WALRecord::TruncateAfter(id) => format!("TruncateAfter({id:?})"),
        WALRecord::PurgeUpto(id) => format!("PurgeUpto{id:?}"),
        WALRecord::State(s) => format!("State(vote {:?}, last {:?}, committed {:?}, purged {:?})", s.vote(), s.last(), s.committed(), s.purged()),
    }
}

fn viol(prop: &str, class: impl Into<String>, detail: impl Into<String>) -> Violation {
    Violation { prop: prop.to_string(), class: class.into(), detail: detail.into(), op_index: -1 }
}

/// Files left behind by a chunk creation that failed half-way: the creating thread's write of
/// the head record returned an error before it closed the file. Not part of the journal.
pub fn orphan_files(trace: &[Ev]) -> BTreeSet<String> {
    let mut creator: BTreeMap<String, u8> = BTreeMap::new();
    let mut orphans = BTreeSet::new();
    let mut disk = Disk::default();
    for e in trace {
        let Ev::Fs(f) = e else { continue };
        if f.file == LOCK {
            continue;
        }
        disk.apply(f);
        match f.op {
            FsOp::Create if f.res >= 0 => {
                creator.insert(f.file.clone(), f.tid);
                orphans.remove(&f.file);
            }
            FsOp::Close => {
                // the creator gives the file up (it keeps it open for the life of the store otherwise)
                if creator.get(&f.file) == Some(&f.tid) {
                    if let Some(sf) = disk.files.get(&f.file) {
                        if parse_records(&sf.data).recs.is_empty() {
                            orphans.insert(f.file.clone());
                        }
                    }
                    creator.remove(&f.file);
                }
            }
            FsOp::Unlink if f.res >= 0 => {
                orphans.remove(&f.file);
                creator.remove(&f.file);
            }
            _ => {}
        }
    }
    orphans
}

// ------------------------------------------------------------------ C04

pub struct AckStats {
    pub acks_ok_checked: u64,
    pub acks_err: u64,
    pub dropped: u64,
    pub batched_acks: u64,
    pub acks_spanning_rotation: u64,
    pub orphans_skipped: u64,
}

/// At each Ack(Ok): every byte journalled before the flush call is written and covered by a
/// *successful* sync issued after the write; at most once; in request order; exactly once in
/// fault-free runs.
pub fn check_acks(spec: &Spec, out: &RunOut, stats: &mut AckStats) -> Vec<Violation> {
    let prop = "C04";
    let mut vs: Vec<Violation> = vec![];
    let mut disk = Disk::default();
    let mut seen: BTreeSet<u32> = BTreeSet::new();
    let mut last_fid = 0u32;
    let fault_free = !spec.has_real_faults();
    let mut prev_ack_pos: Option<usize> = None;
    let mut writes_since_prev_ack = 0u32;
    let orphans = orphan_files(&out.ep.trace);
    for (pos, e) in out.ep.trace.iter().enumerate() {
        match e {
            Ev::Fs(f) => {
                disk.apply(f);
                if f.op == FsOp::Write && f.file != LOCK {
                    writes_since_prev_ack += 1;
                }
            }
            Ev::H(HEv::CbDropped { .. }) => stats.dropped += 1,
            Ev::H(HEv::Ack { fid, ok }) => {
                if !seen.insert(*fid) {
                    vs.push(viol(prop, "callback-invoked-twice", format!("flush #{fid} acknowledged twice")));
                }
                if *fid < last_fid {
                    vs.push(viol(prop, "callback-out-of-order", format!("flush #{fid} acknowledged after flush #{last_fid}")));
                }
                last_fid = last_fid.max(*fid);
                if prev_ack_pos.is_some() && writes_since_prev_ack == 0 {
                    stats.batched_acks += 1;
                }
                prev_ack_pos = Some(pos);
                writes_since_prev_ack = 0;
                if !*ok {
                    stats.acks_err += 1;
                    continue;
                }
                let Some(fl) = out.flushes.iter().find(|f| f.fid == *fid) else { continue };
                stats.acks_ok_checked += 1;
                let all_chunks: Vec<_> = disk.chunks().into_iter().filter(|c| !orphans.contains(c.1)).collect();
                // a file that starts inside the written extent of its predecessor is not part of the
                // journal (left behind by a chunk creation that failed half-way): C08's business
                let mut chunks: Vec<(u64, &String, &crate::shadow::SFile)> = vec![];
                for c in all_chunks {
                    if let Some(prev) = chunks.last() {
                        if c.0 < prev.0 + prev.2.data.len() as u64 {
                            stats.orphans_skipped += 1;
                            continue;
                        }
                    }
                    chunks.push(c);
                }
                let rel: Vec<&(u64, &String, &crate::shadow::SFile)> = chunks.iter().filter(|c| c.0 < fl.upto).collect();
                if rel.is_empty() {
                    vs.push(viol(prop, "ack-without-journal", format!("flush #{fid} acknowledged Ok but no chunk file below journal end {} exists", fl.upto)));
                    continue;
                }
                if rel.len() > 1 {
                    stats.acks_spanning_rotation += 1;
                }
                let mut parsed_nonhead: Vec<WALRecord<TT>> = vec![];
                let mut structural_ok = true;
                for (i, c) in rel.iter().enumerate() {
                    let next_start = rel.get(i + 1).map(|n| n.0).unwrap_or(fl.upto);
                    let bound = (next_start.min(fl.upto) - c.0) as usize;
                    if c.2.data.len() < bound {
                        vs.push(viol(prop, "ack-before-write", format!("flush #{fid} acknowledged Ok, journal end at call was {}, but chunk {} holds only {} of {} bytes", fl.upto, c.1, c.2.data.len(), bound)));
                        structural_ok = false;
                        continue;
                    }
                    if c.2.synced < bound {
                        let newest = i + 1 == rel.len();
                        vs.push(viol(
                            prop,
                            if newest { "ack-before-sync:newest-file" } else { "ack-before-sync:older-file" },
                            format!("flush #{fid} acknowledged Ok but chunk {} is durable only up to byte {} of the {} bytes journalled before the flush (no successful sync after the write)", c.1, c.2.synced, bound),
                        ));
                        structural_ok = false;
                    }
                    let p = parse_records(&c.2.data[..bound]);
                    let end = p.recs.last().map(|r| r.1).unwrap_or(0);
                    if end != bound || p.stop.is_some() {
                        vs.push(viol(prop, "acked-bytes-not-records", format!("flush #{fid}: bytes [0,{bound}) of chunk {} do not parse as complete records (stopped at {end}: {:?})", c.1, p.stop)));
                        structural_ok = false;
                        continue;
                    }
                    for (k, r) in p.recs.into_iter().enumerate() {
                        if k == 0 {
                            continue;
                        }
                        parsed_nonhead.push(r.2);
                    }
                }
                // content: the acknowledged bytes are exactly the accepted records, in call order
                if structural_ok && out.caller_errors == 0 && fault_free {
                    let want = &out.records[..fl.nrec.min(out.records.len())];
                    let l = parsed_nonhead.len();
                    if l > want.len() {
                        vs.push(viol(prop, "acked-journal-has-extra-records", format!("flush #{fid}: {} records on disk below the journal end, only {} were accepted", l, want.len())));
                    } else {
                        let tail = &want[want.len() - l..];
                        if let Some(k) = (0..l).find(|k| !rec_matches(&tail[*k].rec, &parsed_nonhead[*k])) {
                            vs.push(viol(
                                prop,
                                "acked-journal-differs",
                                format!("flush #{fid}: record #{} from the end on disk is {}, accepted was {:?}", l - k, wal_short(&parsed_nonhead[k]), tail[k].rec),
                            ));
                        }
                    }
                }
            }
            _ => {}
        }
    }
    // exactly once when no I/O error occurs (bounded liveness: the run drained before it ended)
    if fault_free && out.aborted.is_none() && out.caller_errors == 0 {
        for fl in out.flushes.iter().filter(|f| f.send_ok) {
            // flush(None) has no callback
            let has_cb = out.ep.trace.iter().any(|e| matches!(e, Ev::H(HEv::FlushReq { fid, .. }) if *fid == fl.fid));
            let _ = has_cb;
        }
        let requested: Vec<u32> = out.ep.trace.iter().filter_map(|e| if let Ev::H(HEv::FlushReq { fid, .. }) = e { Some(*fid) } else { None }).collect();
        for fid in requested {
            let fl = out.flushes.iter().find(|f| f.fid == fid);
            let with_cb = fl.map(|f| f.send_ok && f.with_cb).unwrap_or(false);
            if with_cb && !seen.contains(&fid) {
                vs.push(viol(prop, "callback-never-invoked", format!("flush #{fid} was never acknowledged although no I/O error occurred and the worker was given time to drain")));
            }
        }
    }
    vs.dedup_by(|a, b| a.class == b.class);
    vs
}

// ------------------------------------------------------------------ file history

#[derive(Clone, Debug)]
pub struct FileHist {
    pub start: u64,
    pub name: String,
    pub t_create: usize,
    pub t_unlink: Option<usize>,
    /// content at its largest extent (at unlink or at the end of the trace)
    pub data: Vec<u8>,
    pub created_by_tid: u8,
}

pub fn file_history(out: &RunOut) -> Vec<FileHist> {
    let mut disk = Disk::default();
    let mut hist: BTreeMap<String, FileHist> = BTreeMap::new();
    for (pos, e) in out.ep.trace.iter().enumerate() {
        if let Ev::Fs(f) = e {
            if f.file == LOCK {
                continue;
            }
            if f.op == FsOp::Unlink && f.res >= 0 {
                if let (Some(h), Some(sf)) = (hist.get_mut(&f.file), disk.files.get(&f.file)) {
                    h.data = sf.data.clone();
                    h.t_unlink = Some(pos);
                }
            }
            disk.apply(f);
            if f.op == FsOp::Create && f.res >= 0 {
                if let Some(start) = parse_chunk_name(&f.file) {
                    hist.insert(f.file.clone(), FileHist { start, name: f.file.clone(), t_create: pos, t_unlink: None, data: vec![], created_by_tid: f.tid });
                }
            }
        }
    }
    for (n, sf) in &disk.files {
        if let Some(h) = hist.get_mut(n) {
            if h.t_unlink.is_none() {
                h.data = sf.data.clone();
            }
        }
    }
    let mut v: Vec<FileHist> = hist.into_values().collect();
    v.sort_by_key(|h| h.start);
    v
}

/// Map every non-head record of every chunk file ever written to its sequence number in the
/// accepted-record list (None if the journal does not line up: C11's business).
pub fn align_records(out: &RunOut, hist: &[FileHist]) -> Option<BTreeMap<(u64, usize), usize>> {
    let mut map = BTreeMap::new();
    let mut seq = 0usize;
    for h in hist {
        let p = parse_records(&h.data);
        for (k, r) in p.recs.iter().enumerate() {
            if k == 0 {
                continue;
            }
            let want = out.records.get(seq)?;
            if !rec_matches(&want.rec, &r.2) {
                return None;
            }
            map.insert((h.start, r.0), seq);
            seq += 1;
        }
    }
    Some(map)
}

// ------------------------------------------------------------------ C08

#[derive(Default)]
pub struct UnlinkStats {
    pub unlinks: u64,
    pub unlinks_fully_judged: u64,
    pub purge_record_in_deleted_chunk: u64,
    pub liveness_points: u64,
    pub expected_gone_checked: u64,
    pub cleanup_unlinks: u64,
}

#[derive(Clone, Copy, PartialEq, Eq, Debug)]
enum Fate {
    Live,
    Purged,
    Truncated,
}

pub fn check_unlinks(spec: &Spec, out: &RunOut, stats: &mut UnlinkStats) -> Vec<Violation> {
    let prop = "C08";
    let mut vs: Vec<Violation> = vec![];
    let hist = file_history(out);
    let align = if out.caller_errors == 0 { align_records(out, &hist) } else { None };
    let trace = &out.ep.trace;
    let mut disk = Disk::default();
    let rec_issue: Vec<usize> = out.records.iter().map(|r| r.t_issue).collect();
    for (pos, e) in trace.iter().enumerate() {
        let Ev::Fs(f) = e else { continue };
        if f.op == FsOp::Unlink && f.res >= 0 && f.file != LOCK && parse_chunk_name(&f.file).is_some() {
            // a file without a complete head record was never part of the journal: this is the
            // clean-up of a chunk creation that failed half-way
            if disk.files.get(&f.file).map(|sf| parse_records(&sf.data).recs.is_empty()).unwrap_or(false) {
                stats.cleanup_unlinks += 1;
                disk.apply(f);
                continue;
            }
            stats.unlinks += 1;
            let x_start = parse_chunk_name(&f.file).unwrap();
            let chunks: Vec<_> = disk.chunks().into_iter().filter(|c| !parse_records(&c.2.data).recs.is_empty() || c.0 == x_start).collect();
            // (a) oldest first
            if let Some(lowest) = chunks.first() {
                if lowest.0 != x_start {
                    vs.push(viol(prop, "unlink-not-oldest", format!("chunk {} unlinked while the older chunk {} still exists", f.file, lowest.1)));
                }
            }
            // (b) what remains starts with a complete State snapshot
            let remaining: Vec<&(u64, &String, &crate::shadow::SFile)> = chunks.iter().filter(|c| c.0 != x_start).collect();
            match remaining.first() {
                None => vs.push(viol(prop, "unlink-last-chunk", format!("chunk {} unlinked although no other chunk file exists", f.file))),
                Some(first) => {
                    let p = parse_records(&first.2.data);
                    match p.recs.first() {
                        Some((_, _, WALRecord::State(_))) => {}
                        _ => vs.push(viol(prop, "remaining-journal-without-snapshot", format!("after unlinking {}, the oldest remaining chunk {} does not start with a complete State record", f.file, first.1))),
                    }
                    // remaining files must abut as far as they are written (an in-flight tail may lag)
                    for w in remaining.windows(2) {
                        if w[0].0 + w[0].2.data.len() as u64 > w[1].0 {
                            vs.push(viol(prop, "remaining-journal-overlap", format!("chunk {} extends beyond the start of {}", w[0].1, w[1].1)));
                        }
                    }
                }
            }
            // (c),(d): fate of every Append stored in the unlinked file
            if let (Some(align), Some(xf)) = (&align, disk.files.get(&f.file)) {
                let n_t = rec_issue.partition_point(|t| *t < pos);
                // provenance replay
                let mut live: BTreeMap<u64, usize> = BTreeMap::new();
                let mut fate: BTreeMap<usize, Fate> = BTreeMap::new();
                let mut m = Model::default();
                for (seq, r) in out.records[..n_t].iter().enumerate() {
                    match &r.rec {
                        MRec::Append(id, _) => {
                            if let Some(old) = live.insert(id.1, seq) {
                                fate.insert(old, Fate::Truncated);
                            }
                            fate.insert(seq, Fate::Live);
                        }
                        MRec::TruncateAfter(a) => {
                            let idx = a.map(|a| a.1.wrapping_add(1)).unwrap_or(0);
                            let gone = live.split_off(&idx);
                            for s in gone.values() {
                                fate.insert(*s, Fate::Truncated);
                            }
                        }
                        MRec::Purge(id) => {
                            let keep = live.split_off(&id.1.wrapping_add(1));
                            for s in live.values() {
                                fate.insert(*s, Fate::Purged);
                            }
                            live = keep;
                        }
                        _ => {}
                    }
                    crate::exec::apply_rec(&mut m, &r.rec);
                }
                // max durable purge point in the files that remain
                let mut p_dur: Option<LogId> = None;
                for c in &remaining {
                    let p = parse_records(&c.2.data[..c.2.synced.min(c.2.data.len())]);
                    for (_, _, r) in &p.recs {
                        let cand = match r {
                            WALRecord::PurgeUpto(id) => Some(*id),
                            WALRecord::State(s) => s.purged().cloned(),
                            _ => None,
                        };
                        if let Some(c) = cand {
                            if p_dur.map(|p| c.1 > p.1).unwrap_or(true) {
                                p_dur = Some(c);
                            }
                        }
                    }
                }
                let px = parse_records(&xf.data);
                let mut judged = true;
                for (k, (start, _end, r)) in px.recs.iter().enumerate() {
                    if k == 0 {
                        continue;
                    }
                    if let WALRecord::PurgeUpto(_) = r {
                        stats.purge_record_in_deleted_chunk += 1;
                    }
                    let WALRecord::Append(id, _) = r else { continue };
                    let Some(seq) = align.get(&(x_start, *start)) else {
                        judged = false;
                        continue;
                    };
                    match fate.get(seq).copied() {
                        Some(Fate::Live) => vs.push(viol(prop, "unlink-live-entry", format!("chunk {} unlinked while it holds the live entry {:?} (model purged = {:?})", f.file, id, m.st.purged))),
                        Some(Fate::Purged) => {
                            if p_dur.map(|p| id.1 > p.1).unwrap_or(true) {
                                vs.push(viol(
                                    prop,
                                    "unlink-before-durable-purge",
                                    format!("chunk {} (holding purged entry {:?}) unlinked, but the most advanced purge point durably recorded in the remaining files is {:?}", f.file, id, p_dur),
                                ));
                            }
                        }
                        Some(Fate::Truncated) => {}
                        None => judged = false,
                    }
                }
                if judged {
                    stats.unlinks_fully_judged += 1;
                }
            }
        }
        disk.apply(f);
    }
    // bounded liveness at quiescent points (fault-free): chunks the purge made obsolete are gone
    if !spec.has_real_faults() && out.caller_errors == 0 && out.aborted.is_none() {
        // closing `last` of chunk i = `last` in the head State of chunk i+1
        let mut closing_last: BTreeMap<u64, Option<LogId>> = BTreeMap::new();
        for w in hist.windows(2) {
            let p = parse_records(&w[1].data);
            if let Some((_, _, WALRecord::State(s))) = p.recs.first() {
                closing_last.insert(w[0].start, s.last().cloned());
            }
        }
        for q in &out.quiescent {
            stats.liveness_points += 1;
            let d = Disk::replay(&Disk::default(), trace, q.t);
            let present: BTreeSet<u64> = d.chunks().iter().map(|c| c.0).collect();
            // mimic the specification of purge over the chunks closed at each purge call
            let mut gone: BTreeSet<u64> = BTreeSet::new();
            for r in out.records[..q.nrec].iter() {
                let MRec::Purge(upto) = &r.rec else { continue };
                // chunks created before the purge call, except the newest at that moment
                let existing: Vec<&FileHist> = hist.iter().filter(|h| h.t_create < r.t_issue && !gone.contains(&h.start)).collect();
                if existing.len() < 2 {
                    continue;
                }
                for h in &existing[..existing.len() - 1] {
                    match closing_last.get(&h.start) {
                        Some(cl) if cl.as_ref() <= Some(upto) => {
                            gone.insert(h.start);
                        }
                        _ => break,
                    }
                }
            }
            for g in &gone {
                stats.expected_gone_checked += 1;
                if present.contains(g) {
                    vs.push(viol(prop, "obsolete-chunk-not-deleted", format!("after purge + flush + ack + worker idle, chunk at offset {g} (closed before the purge, closing last <= purge point) still exists")));
                }
            }
        }
    }
    vs.dedup_by(|a, b| a.class == b.class);
    vs
}

// ------------------------------------------------------------------ C11

#[derive(Default)]
pub struct JournalStats {
    pub points: u64,
    pub files_parsed: u64,
    pub segments_checked: u64,
    pub heads_checked: u64,
    pub limit_rules_checked: u64,
}

pub fn check_journal(spec: &Spec, out: &RunOut, stats: &mut JournalStats) -> Vec<Violation> {
    let prop = "C11";
    let mut vs: Vec<Violation> = vec![];
    if out.caller_errors > 0 {
        return vs;
    }
    let trace = &out.ep.trace;
    let prefix = out.prefix_models();
    let hist = file_history(out);
    // which files were the reused open chunk at some open (exempt from the "closed as soon as full" rule)
    let mut reused_at_open: BTreeSet<u64> = BTreeSet::new();
    for o in &out.opens {
        if !o.ok {
            continue;
        }
        let d = Disk::replay(&Disk::default(), trace, o.t_end);
        if let Some(last) = d.chunks().last() {
            // reused unless it was created during this very open
            let created_here = hist.iter().any(|h| h.start == last.0 && h.t_create >= o.t_begin && h.t_create < o.t_end);
            if !created_here {
                reused_at_open.insert(last.0);
            }
        }
    }
    for q in &out.quiescent {
        stats.points += 1;
        let d = Disk::replay(&Disk::default(), trace, q.t);
        let chunks = d.chunks();
        if chunks.is_empty() {
            vs.push(viol(prop, "no-chunk-file", "no chunk file at a quiescent point".to_string()));
            continue;
        }
        // names = offsets, files abut, each parses completely, head is State
        let mut nonhead: Vec<(u64, usize, usize, WALRecord<TT>)> = vec![]; // (chunk start, rec start, rec end, rec)
        let mut heads: Vec<(u64, usize, WALRecord<TT>)> = vec![]; // (chunk start, #nonhead before, head)
        let mut ok = true;
        for (i, c) in chunks.iter().enumerate() {
            stats.files_parsed += 1;
            let p = parse_records(&c.2.data);
            let end = p.recs.last().map(|r| r.1).unwrap_or(0);
            if end != c.2.data.len() {
                vs.push(viol(prop, "file-has-unparsable-tail", format!("chunk {}: {} of {} bytes parse as records ({:?})", c.1, end, c.2.data.len(), p.stop)));
                ok = false;
            }
            if let Some(n) = chunks.get(i + 1) {
                if c.0 + c.2.data.len() as u64 != n.0 {
                    vs.push(viol(prop, "files-do-not-abut", format!("chunk {} ends at {}, next chunk is {}", c.1, c.0 + c.2.data.len() as u64, n.1)));
                    ok = false;
                }
            }
            for (k, r) in p.recs.into_iter().enumerate() {
                if k == 0 {
                    if !matches!(r.2, WALRecord::State(_)) {
                        vs.push(viol(prop, "head-not-state", format!("chunk {} starts with {}", c.1, wal_short(&r.2))));
                        ok = false;
                    }
                    heads.push((c.0, nonhead.len(), r.2));
                } else {
                    nonhead.push((c.0, r.0, r.1, r.2));
                }
            }
        }
        if !ok {
            continue;
        }
        // one record per accepted write, in call order
        let want = &out.records[..q.nrec];
        let l = nonhead.len();
        if l > want.len() {
            vs.push(viol(prop, "journal-has-extra-records", format!("{} records on disk, {} accepted", l, want.len())));
            continue;
        }
        let base = want.len() - l;
        if let Some(k) = (0..l).find(|k| !rec_matches(&want[base + *k].rec, &nonhead[*k].3)) {
            vs.push(viol(prop, "journal-record-differs", format!("record #{} on disk is {}, accepted write #{} was {:?}", k, wal_short(&nonhead[k].3), base + k, want[base + k].rec)));
            continue;
        }
        if base > 0 && chunks[0].0 == 0 {
            vs.push(viol(prop, "journal-misses-records", format!("the journal starts at offset 0 but holds only {} of {} accepted records", l, want.len())));
            continue;
        }
        // head snapshot = state when the file was started
        for (cstart, before, head) in &heads {
            let j = base + before;
            // the very first retained file may have been started before the oldest retained record: its
            // head is S_base only if this file is where the retained journal starts
            stats.heads_checked += 1;
            if !wal_state_eq(&prefix[j].st, head) {
                vs.push(viol(prop, "head-snapshot-differs", format!("chunk at {}: head is {}, state when it was started (after {} accepted writes) was {:?}", cstart, wal_short(head), j, prefix[j].st)));
            }
        }
        // returned segments
        for (k, (cstart, rs, re, _)) in nonhead.iter().enumerate() {
            let r = &want[base + k];
            if let Some((off, size)) = r.seg {
                stats.segments_checked += 1;
                let g_start = cstart + *rs as u64;
                let g_size = (*re - *rs) as u64;
                if (off, size) != (g_start, g_size) {
                    // is it the head of the next chunk (rotation-triggering write)?
                    let last_in_chunk = nonhead.get(k + 1).map(|n| n.0 != *cstart).unwrap_or(chunks.last().map(|c| c.0 != *cstart).unwrap_or(false));
                    let class = if last_in_chunk && off == g_start + g_size { "segment-wrong:rotation-triggering-write-returns-next-head" } else { "segment-wrong:other" };
                    vs.push(viol(prop, class, format!("write #{} ({:?}) returned segment [{}, +{}) but its record is at [{}, +{})", base + k, r.rec, off, size, g_start, g_size)));
                }
            }
        }
        // index entries point at their Append records
        for (idx, id, chunk, soff, ssize) in &q.index {
            let found = nonhead.iter().find(|n| n.0 == *chunk && n.0 + n.1 as u64 == *soff);
            match found {
                Some(n) if (n.2 - n.1) as u64 == *ssize && matches!(&n.3, WALRecord::Append(i, _) if i == id) => {}
                _ => vs.push(viol(prop, "index-points-elsewhere", format!("index entry {idx} -> {:?} claims chunk {} segment [{}, +{}) which is not that Append record", id, chunk, soff, ssize))),
            }
        }
        // stat()/on_disk_size agree with the directory
        let total: u64 = chunks.iter().map(|c| c.2.data.len() as u64).sum();
        if q.on_disk_size != total {
            vs.push(viol(prop, "on-disk-size-differs", format!("on_disk_size() = {}, chunk files hold {} bytes", q.on_disk_size, total)));
        }
        if q.stat_chunks.len() != chunks.len() {
            vs.push(viol(prop, "stat-chunks-differ", format!("stat() lists {} chunks, directory has {}", q.stat_chunks.len(), chunks.len())));
        } else {
            for (s, c) in q.stat_chunks.iter().zip(chunks.iter()) {
                let nrec = parse_records(&c.2.data).recs.len() as u64;
                if s.0 != c.0 || s.1 - s.0 != c.2.data.len() as u64 || s.2 != nrec {
                    vs.push(viol(prop, "stat-chunks-differ", format!("stat() chunk ({}, {}, {} records) vs file {} with {} bytes, {} records", s.0, s.1, s.2, c.1, c.2.data.len(), nrec)));
                }
            }
        }
        // closed as soon as a limit is reached, not earlier
        for (i, c) in chunks.iter().enumerate() {
            if reused_at_open.contains(&c.0) {
                continue;
            }
            let h = hist.iter().find(|h| h.start == c.0);
            let p = parse_records(&c.2.data);
            let count = p.recs.len();
            let size = c.2.data.len();
            let newest = i + 1 == chunks.len();
            // config in force when the chunk was closed (or now, for the newest)
            let t_close = if newest { q.t } else { hist.iter().find(|h| h.start == chunks[i + 1].0).map(|h| h.t_create).unwrap_or(q.t) };
            let cfg = crate::props::cfg_at(out, spec, t_close);
            let max_rec = cfg.chunk_max_records.unwrap_or(1024 * 1024);
            let max_size = cfg.chunk_max_size.unwrap_or(1024 * 1024 * 1024);
            let full = count >= max_rec || size >= max_size;
            stats.limit_rules_checked += 1;
            if newest {
                if full && count > 1 {
                    vs.push(viol(prop, "newest-chunk-over-limit", format!("newest chunk {} holds {} records / {} bytes, limits {} / {}", c.1, count, size, max_rec, max_size)));
                }
            } else {
                // chunks created by an open (recovery / fresh dir) are closed like any other
                let _ = h;
                if !full {
                    vs.push(viol(prop, "chunk-closed-before-limit", format!("closed chunk {} holds {} records / {} bytes, limits {} / {}", c.1, count, size, max_rec, max_size)));
                } else if count > 2 {
                    let prev_size = p.recs[count - 1].0;
                    // the config in force when the previous record was appended may differ after a restart
                    let cfg_prev = crate::props::cfg_at(out, spec, h.map(|h| h.t_create).unwrap_or(0));
                    let same_cfg = cfg_prev.chunk_max_records == cfg.chunk_max_records && cfg_prev.chunk_max_size == cfg.chunk_max_size;
                    if same_cfg && (count - 1 >= max_rec || prev_size >= max_size) {
                        vs.push(viol(prop, "chunk-closed-too-late", format!("closed chunk {} holds {} records / {} bytes but was already full one record earlier (limits {} / {})", c.1, count, size, max_rec, max_size)));
                    }
                }
            }
        }
    }
    vs.dedup_by(|a, b| a.class == b.class);
    vs
}

// ------------------------------------------------------------------ C14

#[derive(Default)]
pub struct QuiesceStats {
    pub drops_checked: u64,
    pub old_worker_steps_after_drop: u64,
}

/// After DropEnd(generation n) nothing may change the directory: no write / unlink / truncate /
/// create by that generation's worker (or anybody on its behalf).
pub fn check_quiesce(out: &RunOut, stats: &mut QuiesceStats) -> Vec<Violation> {
    let prop = "C14";
    let mut vs: Vec<Violation> = vec![];
    let trace = &out.ep.trace;
    for (pos, e) in trace.iter().enumerate() {
        let Ev::H(HEv::DropEnd { generation, clean }) = e else { continue };
        if !*clean {
            continue;
        }
        stats.drops_checked += 1;
        let wname = format!("W{}", generation - 1);
        let Some(wtid) = out.ep.thread_names.iter().position(|n| *n == wname) else { continue };
        // the directory lock is what keeps other processes out: from the moment this store's drop
        // released it, the old worker must not touch the directory either
        let begin = trace[..pos].iter().rposition(|e| matches!(e, Ev::H(HEv::DropBegin { generation: g }) if g == generation)).unwrap_or(pos);
        if let Some(unlock_at) = trace[begin..pos].iter().position(|e| matches!(e, Ev::Fs(f) if f.file == LOCK && matches!(f.op, FsOp::Funlock | FsOp::Close))) {
            for e2 in &trace[begin + unlock_at..pos] {
                let Ev::Fs(f) = e2 else { continue };
                if f.tid as usize == wtid && f.file != LOCK && matches!(f.op, FsOp::Write | FsOp::Unlink | FsOp::Ftruncate | FsOp::Create) && f.res >= 0 {
                    vs.push(viol(prop, format!("mutation-after-lock-release:{:?}", f.op), format!("store generation {generation}: its worker did {:?} on {} after the directory lock had been released during drop (another process may already own the directory)", f.op, f.file)));
                    break;
                }
            }
        }
        for e2 in &trace[pos..] {
            let Ev::Fs(f) = e2 else { continue };
            if f.tid as usize != wtid || f.file == LOCK {
                continue;
            }
            stats.old_worker_steps_after_drop += 1;
            if matches!(f.op, FsOp::Write | FsOp::Unlink | FsOp::Ftruncate | FsOp::Create) && f.res >= 0 {
                vs.push(viol(prop, format!("post-drop-mutation:{:?}", f.op), format!("after drop of store generation {generation} returned, its worker still did {:?} on {}", f.op, f.file)));
                break;
            }
        }
    }
    vs.dedup_by(|a, b| a.class == b.class);
    vs
}
