//! Simulator core: global state, baton scheduler over real (parked) OS threads,
//! event trace, fault plan, hooks implementation.
//!
//! Exactly one simulated thread holds the baton; every interposed libc call and
//! every guarded hook in the crate is a yield point at which the chooser (PRNG
//! or recorded tape) decides who runs next.

use std::cell::Cell;
use std::collections::BTreeMap;
use std::sync::atomic::{AtomicU64, Ordering};
use std::sync::{Condvar, Mutex, MutexGuard, OnceLock};

use serde::{Deserialize, Serialize};

use crate::rng::Rng;

// ------------------------------------------------------------------ events

#[derive(Clone, Copy, Debug, PartialEq, Eq, Serialize, Deserialize, PartialOrd, Ord)]
pub enum FsOp {
    Create,
    Open,
    Close,
    Write,
    Fdatasync,
    Fsync,
    Ftruncate,
    Unlink,
    Flock,
    Funlock,
}

#[derive(Clone, Debug, PartialEq, Eq, Serialize, Deserialize)]
pub struct FsEv {
    pub tid: u8,
    pub op: FsOp,
    /// symbolic file name relative to the episode root (never an fd or inode)
    pub file: String,
    pub off: u64,
    pub len: u64,
    #[serde(skip_serializing_if = "Vec::is_empty", default)]
    pub data: Vec<u8>,
    /// return value, or -errno
    pub res: i64,
    /// injected fault, if one fired at this call
    #[serde(skip_serializing_if = "Option::is_none", default)]
    pub fault: Option<Effect>,
}

#[derive(Clone, Debug, PartialEq, Eq, Serialize, Deserialize)]
pub enum HEv {
    OpStart(u32),
    OpEnd(u32),
    /// A record-producing call was accepted: global record sequence number.
    Rec(u32),
    FlushReq { fid: u32, nrec: u32 },
    Ack { fid: u32, ok: bool },
    CbDropped { fid: u32 },
    StoreOpen { generation: u32, ok: bool },
    DropBegin { generation: u32 },
    DropEnd { generation: u32, clean: bool },
    /// contender scenario (C13): who, what (attempt / ok / err:<class> / dropbegin / dropend)
    Contender { who: u8, what: String },
    ThreadEnter(u8),
    ThreadExit(u8),
    Note(String),
}

#[derive(Clone, Debug, PartialEq, Eq, Serialize, Deserialize)]
pub enum Ev {
    Fs(FsEv),
    H(HEv),
}

// ------------------------------------------------------------------ faults

#[derive(Clone, Copy, Debug, PartialEq, Eq, Serialize, Deserialize, PartialOrd, Ord)]
pub enum Call {
    Write = 0,
    Fdatasync = 1,
    Fsync = 2,
    Open = 3,
    Create = 4,
    Unlink = 5,
    Pread = 6,
    Read = 7,
    Ftruncate = 8,
}
pub const NCALLS: usize = 9;

#[derive(Clone, Copy, Debug, PartialEq, Eq, Serialize, Deserialize)]
pub enum Effect {
    /// fail with this errno, nothing done
    Errno(i32),
    /// transfer only part of the request (>= 1 byte), report the short count
    Short,
    /// write the first half, then fail the *next* call of the same kind with errno
    PartialThenErr(i32),
    /// the call succeeds but takes this many simulated milliseconds (slow disk)
    Delay(u32),
}

#[derive(Clone, Debug, PartialEq, Eq, Serialize, Deserialize)]
pub struct Fault {
    pub call: Call,
    /// fires at the nth (0-based) tracked call of this kind in the episode
    pub nth: u32,
    pub effect: Effect,
    /// keep failing every later call of this kind too
    #[serde(default)]
    pub sticky: bool,
}

// ------------------------------------------------------------------ scheduling

#[derive(Clone, Copy, Debug, PartialEq, Eq, Serialize, Deserialize)]
pub struct Policy {
    /// percent chance to switch away at a yield point when the current thread could continue
    pub p_switch: u8,
    /// relative weight of flush-worker threads when picking (others have weight 4)
    pub w_worker: u8,
    /// per-mille chance, per decision, to start a starvation window
    pub starve_pm: u16,
    /// length (in decisions) of a starvation window
    pub starve_len: u16,
    /// which class is starved: 0 = workers, 1 = non-workers (driver/readers)
    pub starve_class: u8,
}

impl Policy {
    pub const DEFAULT: Policy = Policy { p_switch: 0, w_worker: 4, starve_pm: 0, starve_len: 0, starve_class: 0 };
}

#[derive(Clone, Debug)]
pub enum Chooser {
    /// never switch unless blocked; lowest eligible tid otherwise
    Default,
    Prng { rng: Rng, policy: Policy, starve_left: u32 },
    Tape { tape: Vec<u8>, pos: usize },
}

// ------------------------------------------------------------------ state

#[derive(Clone, Debug)]
pub struct Th {
    pub alive: bool,
    pub parked: bool,
    pub idle_epoch: Option<u64>,
    pub name: String,
    pub is_worker: bool,
    pub os_id: Option<std::thread::ThreadId>,
    pub pthread: Option<libc::pthread_t>,
}

pub struct FdInfo {
    pub name: String,
}

pub struct St {
    pub active: bool,
    pub current: usize,
    pub threads: Vec<Th>,
    pub epoch: u64,
    pub chooser: Chooser,
    pub decisions: u64,
    pub yields: u64,
    pub tape: Vec<u8>,
    pub shape: u64,
    pub trace: Vec<Ev>,
    pub stalls: u64,
    pub fds: BTreeMap<i32, FdInfo>,
    pub root: String,
    pub faults: Vec<Fault>,
    pub fired: Vec<(usize, usize)>, // (fault index, trace position)
    pub pending_err: [Option<i32>; NCALLS],
    pub counters: [u32; NCALLS],
    pub flush_batch: usize,
    pub vclock_ns: u64,
    pub nworkers: u32,
    pub sleep_stall_streak: u32,
    pub acks: Vec<(u32, bool)>,
    pub reads: u64,
    pub worker_steps: u64,
}

impl St {
    fn new() -> St {
        St {
            active: false,
            current: 0,
            threads: vec![],
            epoch: 0,
            chooser: Chooser::Default,
            decisions: 0,
            yields: 0,
            tape: vec![],
            shape: 0xcbf29ce484222325,
            trace: vec![],
            stalls: 0,
            fds: BTreeMap::new(),
            root: String::new(),
            faults: vec![],
            fired: vec![],
            pending_err: [None; NCALLS],
            counters: [0; NCALLS],
            flush_batch: 1024,
            vclock_ns: 0,
            nworkers: 0,
            sleep_stall_streak: 0,
            acks: vec![],
            reads: 0,
            worker_steps: 0,
        }
    }
}

pub struct Sim {
    pub st: Mutex<St>,
    pub cv: Condvar,
}

thread_local! {
    pub static TID: Cell<Option<usize>> = const { Cell::new(None) };
    pub static BYPASS: Cell<u32> = const { Cell::new(0) };
}

static SIM: OnceLock<Sim> = OnceLock::new();
pub static TICK: AtomicU64 = AtomicU64::new(0);
pub static ACTIVE_FLAG: AtomicU64 = AtomicU64::new(0);

pub fn sim_opt() -> Option<&'static Sim> {
    SIM.get()
}
pub fn sim() -> &'static Sim {
    SIM.get().expect("sim not initialised")
}
pub fn lock() -> MutexGuard<'static, St> {
    sim().st.lock().unwrap_or_else(|e| e.into_inner())
}

pub fn tid() -> Option<usize> {
    SIM.get()?;
    TID.try_with(|t| t.get()).ok().flatten()
}

/// True when the calling thread is a simulated thread and not inside harness bookkeeping.
pub fn in_sim() -> bool {
    tid().is_some() && BYPASS.try_with(|b| b.get() == 0).unwrap_or(false)
}

/// Run harness bookkeeping (own file I/O etc.) outside the simulation.
pub fn bypass<R>(f: impl FnOnce() -> R) -> R {
    BYPASS.with(|b| b.set(b.get() + 1));
    struct G;
    impl Drop for G {
        fn drop(&mut self) {
            BYPASS.with(|b| b.set(b.get() - 1));
        }
    }
    let _g = G;
    f()
}

pub fn init() {
    if SIM.set(Sim { st: Mutex::new(St::new()), cv: Condvar::new() }).is_err() {
        return;
    }
    raft_log::verif_hooks::install(Box::leak(Box::new(H)));
    // watchdog: a simulated thread that really blocks in the kernel while holding the
    // baton (never reaching a yield point) is a harness error, never a VIOLATION.
    std::thread::Builder::new()
        .name("sim-watchdog".into())
        .spawn(|| {
            let mut last = (0u64, std::time::Instant::now());
            loop {
                std::thread::sleep(std::time::Duration::from_millis(500));
                if ACTIVE_FLAG.load(Ordering::Relaxed) == 0 {
                    last = (TICK.load(Ordering::Relaxed), std::time::Instant::now());
                    continue;
                }
                let t = TICK.load(Ordering::Relaxed);
                if t != last.0 {
                    last = (t, std::time::Instant::now());
                } else if last.1.elapsed().as_secs() >= 240 {
                    eprintln!("HARNESS-ERROR: watchdog: no yield point for 240 s while a run is active (a simulated thread is blocked in the kernel or looping)");
                    std::process::exit(2);
                }
            }
        })
        .expect("watchdog");
}

fn fnv(h: &mut u64, x: u64) {
    for i in 0..8 {
        *h ^= (x >> (i * 8)) & 0xff;
        *h = h.wrapping_mul(0x100000001b3);
    }
}

impl Sim {
    fn eligible(st: &St, me: usize, me_blocked: bool) -> Vec<usize> {
        (0..st.threads.len())
            .filter(|&i| {
                let t = &st.threads[i];
                t.alive
                    && (t.parked || i == me)
                    && (i != me || !me_blocked)
                    && t.idle_epoch.map_or(true, |e| e < st.epoch)
            })
            .collect()
    }

    fn choose(st: &mut St, me: usize, me_blocked: bool, site: &str) -> Option<usize> {
        let elig = Self::eligible(st, me, me_blocked);
        if elig.is_empty() {
            return None;
        }
        if elig.len() == 1 {
            return Some(elig[0]);
        }
        st.decisions += 1;
        let me_ok = !me_blocked && elig.contains(&me);
        // default: keep running; when blocked, the next eligible thread after me (round robin, so
        // that nobody starves when several threads wait for each other)
        let default = if me_ok { me } else { elig.iter().copied().find(|t| *t > me).unwrap_or(elig[0]) };
        let pick = match &mut st.chooser {
            Chooser::Default => default,
            Chooser::Tape { tape, pos } => {
                let p = if *pos < tape.len() {
                    let t = tape[*pos] as usize;
                    // 255 = "default choice here" (left by schedule minimisation)
                    if t != 255 && elig.contains(&t) {
                        t
                    } else {
                        default
                    }
                } else {
                    default
                };
                *pos += 1;
                p
            }
            Chooser::Prng { rng, policy, starve_left } => {
                let policy = *policy;
                if *starve_left == 0 && policy.starve_pm > 0 && rng.below(1000) < policy.starve_pm as u64 {
                    *starve_left = policy.starve_len as u32;
                }
                let mut cands = elig.clone();
                if *starve_left > 0 {
                    *starve_left -= 1;
                    let keep: Vec<usize> = cands
                        .iter()
                        .copied()
                        .filter(|&i| st.threads[i].is_worker != (policy.starve_class == 0))
                        .collect();
                    if !keep.is_empty() {
                        cands = keep;
                    }
                }
                if me_ok && cands.contains(&me) && rng.below(100) >= policy.p_switch as u64 {
                    me
                } else {
                    let ws: Vec<u64> = cands
                        .iter()
                        .map(|&i| if st.threads[i].is_worker { policy.w_worker as u64 } else { 4 })
                        .collect();
                    cands[rng.weighted(&ws)]
                }
            }
        };
        st.tape.push(pick as u8);
        let cls = if st.threads[pick].is_worker { 1 } else { 2 + (pick == 0) as u64 };
        let mut h = st.shape;
        fnv(&mut h, crate::rng::str_hash(site));
        fnv(&mut h, cls);
        st.shape = h;
        Some(pick)
    }

    fn switch_to(&self, mut st: MutexGuard<'_, St>, me: usize, next: usize) {
        if next == me {
            return;
        }
        st.threads[me].parked = true;
        st.current = next;
        self.cv.notify_all();
        while st.current != me {
            st = self.cv.wait(st).unwrap_or_else(|e| e.into_inner());
        }
        st.threads[me].parked = false;
    }

    pub fn yield_point(&self, site: &str) {
        let Some(me) = tid() else { return };
        TICK.fetch_add(1, Ordering::Relaxed);
        let mut st = lock();
        if !st.active {
            return;
        }
        st.epoch += 1;
        st.yields += 1;
        st.sleep_stall_streak = 0;
        st.threads[me].idle_epoch = None;
        if st.threads[me].is_worker {
            st.worker_steps += 1;
        }
        let next = Self::choose(&mut st, me, false, site).unwrap_or(me);
        self.switch_to(st, me, next);
    }

    /// The caller cannot progress until someone else does. Returns false if nobody can
    /// (global stall): then the driver (tid 0) gets the baton and sees `false`.
    pub fn blocked(&self, site: &str) -> bool {
        let Some(me) = tid() else {
            std::thread::sleep(std::time::Duration::from_micros(50));
            return true;
        };
        let mut st = lock();
        if !st.active {
            drop(st);
            std::thread::sleep(std::time::Duration::from_micros(50));
            return true;
        }
        let e = st.epoch;
        st.threads[me].idle_epoch = Some(e);
        match Self::choose(&mut st, me, true, site) {
            Some(next) => {
                self.switch_to(st, me, next);
                // woken: were we woken because of a stall hand-over?
                if me == 0 {
                    let mut st = lock();
                    if st.threads[0].idle_epoch == Some(u64::MAX) {
                        st.threads[0].idle_epoch = None;
                        return false;
                    }
                }
                true
            }
            None => {
                st.stalls += 1;
                if me != 0 && st.threads[0].alive && st.threads[0].parked {
                    // hand the baton to the driver, marking the stall
                    st.threads[0].idle_epoch = Some(u64::MAX);
                    // make the driver the only choice regardless of epochs
                    st.threads[me].parked = true;
                    st.current = 0;
                    self.cv.notify_all();
                    while st.current != me {
                        st = self.cv.wait(st).unwrap_or_else(|e| e.into_inner());
                    }
                    st.threads[me].parked = false;
                    true
                } else {
                    false
                }
            }
        }
    }

    pub fn progress(&self) {
        let mut st = lock();
        st.epoch += 1;
    }
}

// ------------------------------------------------------------------ hooks

pub struct H;

fn spawn_slot(name_hint: Option<String>, is_worker: bool) -> u64 {
    if tid().is_none() {
        return u64::MAX;
    }
    let mut st = lock();
    if !st.active {
        return u64::MAX;
    }
    let id = st.threads.len();
    let name = match name_hint {
        Some(n) => n,
        None => {
            let n = st.nworkers;
            st.nworkers += 1;
            format!("W{n}")
        }
    };
    st.threads.push(Th { alive: true, parked: false, idle_epoch: None, name, is_worker, os_id: None, pthread: None });
    id as u64
}

fn spawn_wait(child: u64) {
    if child == u64::MAX {
        return;
    }
    let s = sim();
    let mut st = lock();
    while !st.threads[child as usize].parked && st.threads[child as usize].alive {
        st = s.cv.wait(st).unwrap_or_else(|e| e.into_inner());
    }
    st.epoch += 1;
}

fn thread_enter_impl(child: u64) {
    if child == u64::MAX {
        return;
    }
    let me = child as usize;
    TID.with(|t| t.set(Some(me)));
    let s = sim();
    let mut st = lock();
    st.trace.push(Ev::H(HEv::ThreadEnter(me as u8)));
    st.threads[me].os_id = Some(std::thread::current().id());
    st.threads[me].pthread = Some(unsafe { libc::pthread_self() });
    st.threads[me].parked = true;
    s.cv.notify_all();
    while st.current != me {
        st = s.cv.wait(st).unwrap_or_else(|e| e.into_inner());
    }
    st.threads[me].parked = false;
}

fn thread_exit_impl() {
    let Some(me) = tid() else { return };
    let s = sim();
    let mut st = lock();
    st.threads[me].alive = false;
    st.epoch += 1;
    st.trace.push(Ev::H(HEv::ThreadExit(me as u8)));
    let next = Sim::choose(&mut st, me, true, "thread_exit").unwrap_or(0);
    st.current = next;
    s.cv.notify_all();
    drop(st);
    TID.with(|t| t.set(None));
}

impl raft_log::verif_hooks::Hooks for H {
    fn managed(&self) -> bool {
        if tid().is_none() {
            return false;
        }
        ACTIVE_FLAG.load(Ordering::Relaxed) != 0
    }
    fn yield_point(&self, site: &'static str) {
        sim().yield_point(site)
    }
    fn blocked(&self, site: &'static str) {
        sim().blocked(site);
    }
    fn spawn_begin(&self) -> u64 {
        spawn_slot(None, true)
    }
    fn spawn_end(&self, child: u64) {
        spawn_wait(child)
    }
    fn thread_enter(&self, child: u64) {
        thread_enter_impl(child)
    }
    fn thread_exit(&self) {
        thread_exit_impl()
    }
    fn knob(&self, name: &'static str, default: usize) -> usize {
        if name == "flush_batch" {
            let st = lock();
            if st.active {
                return st.flush_batch;
            }
        }
        default
    }
}

/// Called by the interposed `pthread_join`: wait, in simulated time, until the simulated thread
/// with this pthread id has exited. Deterministic: depends only on simulated state.
pub fn join_wait_pthread(t: libc::pthread_t) {
    loop {
        {
            let st = lock();
            if !st.active {
                return;
            }
            // pthread ids are reused once a thread is gone: only a live simulated thread counts
            if !st.threads.iter().any(|th| th.alive && th.pthread == Some(t)) {
                return;
            }
        }
        // whoever joins has usually just closed a channel: progress the joined thread must see
        sim().progress();
        sim().blocked("pthread_join");
    }
}

/// Spawn a harness-owned simulated thread (reader / contender). Returns after the child is parked.
pub fn spawn_sim_thread(name: String, f: impl FnOnce() + Send + 'static) -> std::thread::JoinHandle<()> {
    let slot = spawn_slot(Some(name.clone()), false);
    assert!(slot != u64::MAX, "spawn_sim_thread outside an episode");
    let h = std::thread::Builder::new()
        .name(name)
        .spawn(move || {
            thread_enter_impl(slot);
            struct G;
            impl Drop for G {
                fn drop(&mut self) {
                    thread_exit_impl();
                }
            }
            let _g = G;
            f();
        })
        .expect("spawn sim thread");
    spawn_wait(slot);
    h
}

// ------------------------------------------------------------------ episodes

pub struct EpisodeCfg {
    pub root: String,
    pub chooser: Chooser,
    pub faults: Vec<Fault>,
    pub flush_batch: usize,
}

#[derive(Debug, Default, Clone)]
pub struct EpisodeOut {
    pub trace: Vec<Ev>,
    pub tape: Vec<u8>,
    pub decisions: u64,
    pub yields: u64,
    pub shape: u64,
    pub fired: Vec<(usize, usize)>,
    pub counters: [u32; NCALLS],
    pub vclock_ns: u64,
    pub thread_names: Vec<String>,
    pub stalls: u64,
    pub reads: u64,
}

/// Start an episode on the calling thread, which becomes T0.
pub fn begin(cfg: EpisodeCfg) {
    let mut st = lock();
    assert!(!st.active, "nested episode");
    let leftover: Vec<String> = st.threads.iter().skip(1).filter(|t| t.alive).map(|t| t.name.clone()).collect();
    if !leftover.is_empty() {
        eprintln!("HARNESS-ERROR: threads alive from a previous episode: {leftover:?}");
        std::process::exit(2);
    }
    *st = St::new();
    st.active = true;
    st.root = cfg.root;
    st.chooser = cfg.chooser;
    st.faults = cfg.faults;
    st.flush_batch = cfg.flush_batch;
    st.threads.push(Th { alive: true, parked: false, idle_epoch: None, name: "T0".into(), is_worker: false, os_id: None, pthread: None });
    st.current = 0;
    drop(st);
    TID.with(|t| t.set(Some(0)));
    ACTIVE_FLAG.store(1, Ordering::Relaxed);
}

/// Let every other thread run until all of them have exited (stores must have been dropped).
/// Returns false if some thread is still alive when nothing can progress.
pub fn drain_threads() -> bool {
    loop {
        {
            let st = lock();
            if !st.threads.iter().skip(1).any(|t| t.alive) {
                return true;
            }
        }
        sim().progress();
        if !sim().blocked("drain_threads") {
            let st = lock();
            if st.threads.iter().skip(1).any(|t| t.alive) {
                return false;
            }
            return true;
        }
    }
}

/// Run others until nobody can progress (all live threads idle).
pub fn drain_idle() {
    sim().progress();
    let mut budget = 200_000u32;
    while sim().blocked("drain_idle") {
        budget -= 1;
        if budget == 0 {
            eprintln!("HARNESS-ERROR: drain_idle budget exhausted (livelock)");
            std::process::exit(2);
        }
    }
}

pub fn end() -> EpisodeOut {
    let mut st = lock();
    assert!(st.active);
    let alive: Vec<String> = st.threads.iter().skip(1).filter(|t| t.alive).map(|t| t.name.clone()).collect();
    if !alive.is_empty() {
        eprintln!("HARNESS-ERROR: episode ended with live threads {alive:?}");
        std::process::exit(2);
    }
    st.active = false;
    ACTIVE_FLAG.store(0, Ordering::Relaxed);
    TID.with(|t| t.set(None));
    EpisodeOut {
        trace: std::mem::take(&mut st.trace),
        tape: std::mem::take(&mut st.tape),
        decisions: st.decisions,
        yields: st.yields,
        shape: st.shape,
        fired: std::mem::take(&mut st.fired),
        counters: st.counters,
        vclock_ns: st.vclock_ns,
        thread_names: st.threads.iter().map(|t| t.name.clone()).collect(),
        stalls: st.stalls,
        reads: st.reads,
    }
}

pub fn ev(e: HEv) {
    let mut st = lock();
    if st.active {
        st.trace.push(Ev::H(e));
    }
}

/// Number of real steps (yield points) flush-worker threads have taken so far.
pub fn worker_steps() -> u64 {
    lock().worker_steps
}

pub fn trace_len() -> usize {
    lock().trace.len()
}

pub fn thread_alive(name: &str) -> bool {
    lock().threads.iter().any(|t| t.alive && t.name == name)
}

pub fn workers_alive() -> Vec<String> {
    lock().threads.iter().filter(|t| t.alive && t.is_worker).map(|t| t.name.clone()).collect()
}

pub fn set_chooser(c: Chooser) {
    lock().chooser = c;
}

pub fn acked(fid: u32) -> Option<bool> {
    lock().acks.iter().find(|(f, _)| *f == fid).map(|(_, ok)| *ok)
}

/// Wait (in simulated time) for the acknowledgement of flush `fid`. None = stalled without ack.
pub fn wait_ack(fid: u32) -> Option<bool> {
    sim().progress();
    let stalls0 = lock().stalls;
    loop {
        if let Some(ok) = acked(fid) {
            return Some(ok);
        }
        if !sim().blocked("wait_ack") {
            return acked(fid);
        }
        // a waiter that is not the driver never sees `false`; it gives up after the whole
        // system has been found stalled a few times since it started waiting
        if lock().stalls >= stalls0 + 6 {
            return acked(fid);
        }
    }
}
