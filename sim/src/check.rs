//! The check driver: forks worker processes over disjoint run-index ranges (one simulation per
//! process), aggregates, matches known findings, shrinks and persists witnesses, writes evidence.

use std::collections::{BTreeMap, BTreeSet};
use std::io::Write;
use std::process::Command;
use std::time::Instant;

use serde::{Deserialize, Serialize};
use serde_json::json;

use crate::core::Call;
use crate::exec::Violation;
use crate::ops::{Op, Sched, Spec};
use crate::props::{self, Analysis, Post, Witness};
use crate::rng;

pub const VERIF_DIR: &str = "/verif";

/// Where evidence and replay files go (default /verif; trials against seeded changes redirect it
/// with SIM_OUT_DIR so that evidence of a mutated tree never lands in /verif/evidence).
pub fn out_dir() -> String {
    std::env::var("SIM_OUT_DIR").unwrap_or_else(|_| VERIF_DIR.to_string())
}

#[derive(Serialize, Deserialize, Default, Clone)]
pub struct ClassAgg {
    pub count: u64,
    pub first: Option<Witness>,
    pub first_idx: u64,
}

#[derive(Serialize, Deserialize, Default, Clone)]
pub struct WorkerOut {
    pub runs: u64,
    pub aborted_runs: u64,
    pub abort_reasons: BTreeMap<String, u64>,
    pub decisions: u64,
    pub yields: u64,
    pub vclock_ns: u64,
    pub ops: u64,
    pub records: u64,
    pub fs_events: u64,
    pub nontrivial: u64,
    pub shapes: BTreeSet<u64>,
    pub probes: BTreeMap<String, u64>,
    pub faults_fired: BTreeMap<String, u64>,
    pub faults_planned: u64,
    pub classes: BTreeMap<String, ClassAgg>,
    pub samples: Vec<serde_json::Value>,
    pub images: u64,
    pub images_opened: u64,
    pub images_refused: u64,
    pub images_panicked: u64,
    pub nested_images: u64,
    pub image_kinds: BTreeMap<String, u64>,
    pub image_shapes: BTreeSet<u64>,
    pub selfcheck_pairs: u64,
    pub family_lower_runs: u64,
    pub stalls: u64,
    pub max_threads: u64,
    pub stopped_early: bool,
}

impl WorkerOut {
    fn merge(&mut self, o: WorkerOut) {
        self.runs += o.runs;
        self.aborted_runs += o.aborted_runs;
        for (k, v) in o.abort_reasons {
            *self.abort_reasons.entry(k).or_default() += v;
        }
        self.decisions += o.decisions;
        self.yields += o.yields;
        self.vclock_ns += o.vclock_ns;
        self.ops += o.ops;
        self.records += o.records;
        self.fs_events += o.fs_events;
        self.nontrivial += o.nontrivial;
        self.shapes.extend(o.shapes);
        for (k, v) in o.probes {
            *self.probes.entry(k).or_default() += v;
        }
        for (k, v) in o.faults_fired {
            *self.faults_fired.entry(k).or_default() += v;
        }
        self.faults_planned += o.faults_planned;
        for (k, v) in o.classes {
            let e = self.classes.entry(k).or_default();
            e.count += v.count;
            if e.first.is_none() || v.first_idx < e.first_idx {
                e.first = v.first;
                e.first_idx = v.first_idx;
            }
        }
        if self.samples.len() < 4 {
            self.samples.extend(o.samples.into_iter().take(1));
        }
        self.images += o.images;
        self.images_opened += o.images_opened;
        self.images_refused += o.images_refused;
        self.images_panicked += o.images_panicked;
        self.nested_images += o.nested_images;
        for (k, v) in o.image_kinds {
            *self.image_kinds.entry(k).or_default() += v;
        }
        self.image_shapes.extend(o.image_shapes);
        self.selfcheck_pairs += o.selfcheck_pairs;
        self.family_lower_runs += o.family_lower_runs;
        self.stalls += o.stalls;
        self.max_threads = self.max_threads.max(o.max_threads);
        self.stopped_early |= o.stopped_early;
    }
}

pub fn run_seed(verif_seed: u64, prop: &str, idx: u64) -> u64 {
    rng::mix(&[verif_seed, rng::str_hash(prop), idx])
}

fn trace_hash(out: &crate::exec::RunOut) -> u64 {
    rng::str_hash(&format!("{:?}|{:?}", out.ep.trace, out.ep.tape))
}

pub fn scratch_root() -> String {
    format!("/dev/shm/rlsim-{}", std::process::id())
}

fn spec_sample(spec: &Spec, post: &Post) -> serde_json::Value {
    json!({
        "run_seed": spec.run_seed,
        "cfg": spec.cfg,
        "ops": spec.ops.iter().map(|o| o.short()).collect::<Vec<_>>(),
        "schedule": match &spec.sched { Sched::Default => "default (switch only when blocked)".to_string(), Sched::Prng{seed, policy} => format!("prng seed {seed} {policy:?}"), Sched::Tape(t) => format!("explicit tape of {} decisions, {} of them non-default (255 = default: keep running, or next eligible thread when blocked): {:?}", t.len(), t.iter().filter(|x| **x != 255).count(), t) },
        "faults": spec.faults,
        "flush_batch": spec.flush_batch,
        "post": post,
    })
}

fn nontrivial(prop: &str, out: &crate::exec::RunOut, an: &Analysis) -> bool {
    if out.aborted.is_some() {
        return false;
    }
    let p = |k: &str| out.probes.get(k).copied().unwrap_or(0) > 0;
    match prop {
        "C01" => p("rotation"),
        "C02" | "C06" => p("restart") && (prop == "C02" || p("rejected_op")),
        "C03" | "C05" => an.crash.images > 0 && p("rotation"),
        "C09" | "C10" => an.crash.images > 0,
        "C07" => p("rotation") && out.ep.reads > 0,
        "C15" => p("rotation"),
        "C16" => true,
        "C13" => p("runs_with_both_ok_and_refused"),
        _ => p("rotation"),
    }
}

/// Worker: runs indices idx = job, job+jobs, ... < total.
pub fn work(prop: &str, thorough: bool, verif_seed: u64, job: u64, jobs: u64, total: u64, deadline_s: u64, outfile: &str) {
    let root = format!("{}/r", scratch_root());
    let img = format!("{}/img", scratch_root());
    let mut w = WorkerOut::default();
    let t0 = Instant::now();
    let mut idx = job;
    while idx < total {
        if t0.elapsed().as_secs() >= deadline_s {
            w.stopped_early = true;
            break;
        }
        let seed = run_seed(verif_seed, prop, idx);
        let spec = props::make_spec(prop, seed);
        if std::env::var("SIM_DEBUG").is_ok() {
            eprintln!("[run] idx {idx}");
        }
        let out = props::execute(prop, &spec, &root);
        // light determinism self-check on the first runs of the batch
        if idx < 24 {
            let out2 = props::execute(prop, &spec, &root);
            if trace_hash(&out) != trace_hash(&out2) {
                eprintln!("HARNESS-ERROR: nondeterminism: run {idx} (seed {seed}) of {prop} produced two different traces");
                std::process::exit(2);
            }
            w.selfcheck_pairs += 1;
        }
        let mut an = Analysis::default();
        props::analyse(prop, &spec, &out, thorough, None, &img, &mut an);
        w.runs += 1;
        if let Some(a) = &out.aborted {
            w.aborted_runs += 1;
            let key: String = a.split(':').next().unwrap_or("").chars().take(40).collect();
            *w.abort_reasons.entry(key).or_default() += 1;
        }
        w.decisions += out.ep.decisions;
        w.yields += out.ep.yields;
        w.vclock_ns += out.ep.vclock_ns;
        w.ops += out.ops_done as u64;
        w.records += out.records.len() as u64;
        w.fs_events += out.ep.trace.len() as u64;
        w.stalls += out.ep.stalls;
        w.max_threads = w.max_threads.max(out.ep.thread_names.len() as u64);
        if out.family_lower {
            w.family_lower_runs += 1;
        }
        for (k, v) in &out.probes {
            *w.probes.entry(k.clone()).or_default() += v;
        }
        for (k, v) in &an.crash.probes {
            *w.probes.entry(k.clone()).or_default() += v;
        }
        for (k, v) in &an.extra {
            *w.probes.entry(k.clone()).or_default() += v;
        }
        w.faults_planned += spec.faults.len() as u64;
        for (fi, _pos) in &out.ep.fired {
            let f = &spec.faults[*fi];
            *w.faults_fired.entry(format!("{:?}:{:?}", f.call, f.effect)).or_default() += 1;
        }
        if out.ep.thread_names.len() > 1 && out.ep.decisions > 0 {
            *w.probes.entry("runs_with_scheduling_decisions".into()).or_default() += 1;
        }
        w.images += an.crash.images;
        w.images_opened += an.crash.opened;
        w.images_refused += an.crash.refused;
        w.images_panicked += an.crash.panicked;
        w.nested_images += an.crash.nested_images;
        for (k, v) in &an.crash.by_kind {
            *w.image_kinds.entry(k.clone()).or_default() += v;
        }
        w.image_shapes.extend(an.crash.shapes.iter().copied());
        if nontrivial(prop, &out, &an) {
            w.nontrivial += 1;
            let opsig = rng::str_hash(&spec.ops.iter().map(|o| o.short()).collect::<Vec<_>>().join(";"));
            w.shapes.insert(rng::mix(&[out.ep.shape, opsig, rng::str_hash(&format!("{:?}", spec.cfg))]));
            if w.samples.len() < 2 {
                w.samples.push(spec_sample(&spec, &Post::None));
            }
        }
        for (v, post) in an.witnesses {
            let e = w.classes.entry(v.class.clone()).or_default();
            e.count += 1;
            if e.first.is_none() {
                e.first_idx = idx;
                e.first = Some(Witness { violation: v, spec: spec.clone(), post });
            }
        }
        idx += jobs;
    }
    let s = serde_json::to_string(&w).expect("serialise worker output");
    crate::core::bypass(|| std::fs::write(outfile, s)).expect("write worker output");
    let _ = std::fs::remove_dir_all(scratch_root());
}

// ------------------------------------------------------------------ known findings

#[derive(Clone, Debug)]
pub struct Known {
    pub prop: String,
    pub class: String,
    pub text: String,
}

pub fn load_known() -> Vec<Known> {
    let mut out = vec![];
    let Ok(s) = std::fs::read_to_string(format!("{VERIF_DIR}/known_findings.txt")) else { return out };
    for line in s.lines() {
        let line = line.trim();
        let Some(rest) = line.strip_prefix("known:") else { continue };
        let rest = rest.trim();
        let Some(p) = rest.strip_prefix("property=") else { continue };
        let (prop, rest) = p.split_once(' ').unwrap_or((p, ""));
        let rest = rest.trim();
        let Some(c) = rest.strip_prefix("class=\"") else { continue };
        let Some((class, text)) = c.split_once('"') else { continue };
        out.push(Known { prop: prop.to_string(), class: class.to_string(), text: text.trim().to_string() });
    }
    out
}

fn known_match<'a>(known: &'a [Known], prop: &str, class: &str) -> Option<&'a Known> {
    known.iter().find(|k| k.prop == prop && (k.class == class || (k.class.ends_with('*') && class.starts_with(k.class.trim_end_matches('*')))))
}

// ------------------------------------------------------------------ replay + shrink

/// Re-execute a witness. Returns the violations found (class list) and the trace hash.
pub fn reproduce(w: &Witness, thorough_post: bool, only: bool) -> (Vec<(Violation, Post)>, u64) {
    let root = format!("{}/r", scratch_root());
    let img = format!("{}/img", scratch_root());
    let prop = w.violation.prop.clone();
    let out = props::execute(&prop, &w.spec, &root);
    let mut an = Analysis::default();
    let only_post = if only { Some(&w.post) } else { None };
    props::analyse(&prop, &w.spec, &out, thorough_post, only_post, &img, &mut an);
    (an.witnesses, trace_hash(&out))
}

fn still_fails(cand: &Witness, class: &str) -> Option<Post> {
    // first the cheap way (same explicit post experiment), then a full post-hoc search
    let (ws, _) = reproduce(cand, false, true);
    if let Some((_, p)) = ws.iter().find(|(v, _)| v.class == class) {
        return Some(p.clone());
    }
    if cand.post != Post::None {
        let (ws, _) = reproduce(cand, true, false);
        if let Some((_, p)) = ws.iter().find(|(v, _)| v.class == class) {
            return Some(p.clone());
        }
    }
    None
}

pub fn shrink(w: &Witness, budget_s: u64, max_cands: u32) -> (Witness, u32) {
    let class = w.violation.class.clone();
    let t0 = Instant::now();
    let mut best = w.clone();
    let mut tried = 0u32;
    let mut attempt = |cand: Witness, best: &mut Witness, tried: &mut u32| -> bool {
        if *tried >= max_cands || t0.elapsed().as_secs() >= budget_s {
            return false;
        }
        *tried += 1;
        if let Some(p) = still_fails(&cand, &class) {
            *best = Witness { post: p, ..cand };
            true
        } else {
            false
        }
    };
    // 0. cut everything after the violating op
    if best.violation.op_index >= 0 && (best.violation.op_index as usize) + 1 < best.spec.ops.len() {
        let mut c = best.clone();
        c.spec.ops.truncate(best.violation.op_index as usize + 1);
        attempt(c, &mut best, &mut tried);
    }
    // 1. simplest schedule
    if best.spec.sched != Sched::Default {
        let mut c = best.clone();
        c.spec.sched = Sched::Default;
        attempt(c, &mut best, &mut tried);
    }
    // 2. drop faults
    let mut i = 0;
    while i < best.spec.faults.len() {
        let mut c = best.clone();
        c.spec.faults.remove(i);
        if !attempt(c, &mut best, &mut tried) {
            i += 1;
        }
    }
    // 3. ddmin over ops
    let mut chunk = (best.spec.ops.len() / 2).max(1);
    while chunk >= 1 {
        let mut i = 0;
        let mut progress = false;
        while i < best.spec.ops.len() {
            let end = (i + chunk).min(best.spec.ops.len());
            let mut c = best.clone();
            c.spec.ops.drain(i..end);
            if !c.spec.ops.is_empty() && attempt(c, &mut best, &mut tried) {
                progress = true;
            } else {
                i += chunk;
            }
            if tried >= max_cands || t0.elapsed().as_secs() >= budget_s {
                break;
            }
        }
        if tried >= max_cands || t0.elapsed().as_secs() >= budget_s {
            break;
        }
        if chunk == 1 && !progress {
            break;
        }
        if !progress || chunk > 1 {
            chunk = if chunk == 1 { 1 } else { chunk / 2 };
        }
        if chunk == 1 && !progress {
            break;
        }
    }
    // 4. shrink append batches and payloads
    for i in 0..best.spec.ops.len() {
        if let Op::Append(es) = &best.spec.ops[i] {
            if es.iter().any(|e| e.1.fill > 0) {
                let mut c = best.clone();
                if let Op::Append(es) = &mut c.spec.ops[i] {
                    for e in es.iter_mut() {
                        e.1.fill = 0;
                    }
                }
                attempt(c, &mut best, &mut tried);
            }
        }
    }
    // 5. plain knobs
    for k in 0..6 {
        let mut c = best.clone();
        let cfg = &mut c.spec.cfg;
        let changed = match k {
            0 => cfg.read_buffer_size.take().is_some(),
            1 => cfg.chunk_max_size.take().is_some(),
            2 => cfg.log_cache_capacity.take().is_some(),
            3 => cfg.log_cache_max_items.take().is_some(),
            4 => cfg.chunk_max_records.take().is_some(),
            _ => {
                let b = c.spec.flush_batch != 1024;
                c.spec.flush_batch = 1024;
                b
            }
        };
        if changed {
            attempt(c, &mut best, &mut tried);
        }
    }
    // 6. make the schedule explicit: record the tape actually taken
    if !matches!(best.spec.sched, Sched::Default | Sched::Tape(_)) {
        let root = format!("{}/r", scratch_root());
        let out = props::execute(&best.violation.prop, &best.spec, &root);
        let mut c = best.clone();
        c.spec.sched = Sched::Tape(out.ep.tape.clone());
        attempt(c, &mut best, &mut tried);
    }
    // 7. minimise the schedule itself: replace runs of recorded decisions by "default" (255)
    if let Sched::Tape(t0_tape) = best.spec.sched.clone() {
        let mut tape = t0_tape;
        // cut the unused tail first
        let mut chunk = (tape.len() / 2).max(1);
        while chunk >= 1 && tried < max_cands && t0.elapsed().as_secs() < budget_s {
            let mut i = 0;
            while i < tape.len() && tried < max_cands && t0.elapsed().as_secs() < budget_s {
                let end = (i + chunk).min(tape.len());
                if tape[i..end].iter().all(|x| *x == 255) {
                    i = end;
                    continue;
                }
                let mut cand_tape = tape.clone();
                for x in cand_tape[i..end].iter_mut() {
                    *x = 255;
                }
                let mut c = best.clone();
                c.spec.sched = Sched::Tape(cand_tape.clone());
                if attempt(c, &mut best, &mut tried) {
                    tape = cand_tape;
                }
                i = end;
            }
            if chunk == 1 {
                break;
            }
            chunk /= 2;
        }
        // drop trailing defaults
        while tape.last() == Some(&255) {
            tape.pop();
        }
        let mut c = best.clone();
        c.spec.sched = Sched::Tape(tape);
        attempt(c, &mut best, &mut tried);
    }
    // refresh the violation text from the minimal witness
    let (ws, _) = reproduce(&best, false, true);
    if let Some((v, _)) = ws.into_iter().find(|(v, _)| v.class == class) {
        best.violation = v;
    }
    (best, tried)
}

#[derive(Serialize, Deserialize)]
pub struct ReplayFile {
    pub property: String,
    pub class: String,
    pub detail: String,
    pub verif_seed: u64,
    pub trace_hash: u64,
    pub shrink_candidates: u32,
    pub original_ops: usize,
    pub witness: Witness,
    pub readable: serde_json::Value,
}

pub fn write_replay(w: &Witness, verif_seed: u64, tried: u32, original_ops: usize) -> String {
    let (_, h) = reproduce(w, false, true);
    let rf = ReplayFile {
        property: w.violation.prop.clone(),
        class: w.violation.class.clone(),
        detail: w.violation.detail.clone(),
        verif_seed,
        trace_hash: h,
        shrink_candidates: tried,
        original_ops,
        witness: w.clone(),
        readable: spec_sample(&w.spec, &w.post),
    };
    let dir = format!("{}/replays", out_dir());
    let _ = std::fs::create_dir_all(&dir);
    let path = format!("{dir}/{}-{}-{:08x}.json", rf.property, verif_seed, rng::str_hash(&rf.class) as u32);
    std::fs::write(&path, serde_json::to_string_pretty(&rf).unwrap()).expect("write replay file");
    path
}

pub fn replay_cmd(path: &str) -> i32 {
    let s = match std::fs::read_to_string(path) {
        Ok(s) => s,
        Err(e) => {
            eprintln!("HARNESS-ERROR: cannot read {path}: {e}");
            return 2;
        }
    };
    let rf: ReplayFile = match serde_json::from_str(&s) {
        Ok(r) => r,
        Err(e) => {
            eprintln!("HARNESS-ERROR: cannot parse {path}: {e}");
            return 2;
        }
    };
    let (ws, h) = reproduce(&rf.witness, false, true);
    let _ = std::fs::remove_dir_all(scratch_root());
    println!("replay {path}: property={} class={}", rf.property, rf.class);
    println!("  trace hash {:016x} (recorded {:016x}) {}", h, rf.trace_hash, if h == rf.trace_hash { "identical" } else { "DIFFERENT" });
    if let Some((v, _)) = ws.iter().find(|(v, _)| v.class == rf.class) {
        println!("  reproduced: {}", v.detail);
        println!("VIOLATION property={} replay={}", rf.property, path);
        1
    } else {
        println!("  not reproduced (found classes: {:?})", ws.iter().map(|(v, _)| v.class.clone()).collect::<Vec<_>>());
        3
    }
}

// ------------------------------------------------------------------ parent

fn level_of(prop: &str) -> &'static str {
    match prop {
        "C03" | "C05" | "C09" | "C10" => "fault_enumeration",
        _ => "exploration",
    }
}

fn rule_of(prop: &str) -> String {
    let nt = match prop {
        "C01" => "at least one chunk rotation happened and the run was not aborted",
        "C02" => "at least one clean restart was executed",
        "C06" => "at least one restart and at least one specification-rejected write were executed",
        "C03" | "C05" => "at least one rotation happened and at least one crash image was opened",
        "C07" => "at least one rotation and at least one disk read happened",
        "C13" => "at least one open succeeded and at least one was refused in the same run",
        "C09" | "C10" => "at least one mutated image of the run was opened (evaluations counts runs + mutated images; distinct also counts distinct mutated image contents)",
        _ => "at least one chunk rotation happened and the run was not aborted",
    };
    format!(
        "Runs are generated from per-run seeds h(VERIF_SEED, property, run index): config knobs, op list, schedule policy, fault plan. \
         A run is non-trivial if {nt}. Two runs are distinct if the hash of (sequence of (site, chosen thread class) at scheduling decision points, op-kind sequence with arguments, config knobs) differs."
    )
}

pub fn check(prop: &str, thorough: bool, verif_seed: u64, jobs: u64) -> i32 {
    let t0 = Instant::now();
    if !props::PROPS.contains(&prop) {
        eprintln!("HARNESS-ERROR: unknown or not-applicable property {prop}");
        return 2;
    }
    let b = props::budget(prop, thorough);
    let deadline = if thorough { 1500 } else { 150 };
    let exe = std::env::current_exe().expect("current exe");
    let dir = format!("/dev/shm/rlsim-parent-{}", std::process::id());
    let _ = std::fs::create_dir_all(&dir);
    let mut kids = vec![];
    for j in 0..jobs {
        let outfile = format!("{dir}/w{j}.json");
        let child = Command::new(&exe)
            .args(["work", prop, if thorough { "thorough" } else { "quick" }, &verif_seed.to_string(), &j.to_string(), &jobs.to_string(), &b.runs.to_string(), &deadline.to_string(), &outfile])
            .spawn()
            .expect("spawn worker");
        kids.push((child, outfile));
    }
    let mut agg = WorkerOut::default();
    let mut harness_err = false;
    for (mut c, outfile) in kids {
        let st = c.wait().expect("wait worker");
        let _ = std::fs::remove_dir_all(format!("/dev/shm/rlsim-{}", c.id()));
        if !st.success() {
            eprintln!("HARNESS-ERROR: worker exited with {st}");
            harness_err = true;
            continue;
        }
        match std::fs::read_to_string(&outfile).ok().and_then(|s| serde_json::from_str::<WorkerOut>(&s).ok()) {
            Some(w) => agg.merge(w),
            None => {
                eprintln!("HARNESS-ERROR: worker output {outfile} missing or unparsable");
                harness_err = true;
            }
        }
    }
    let _ = std::fs::remove_dir_all(&dir);
    if harness_err {
        return 2;
    }
    // known findings vs violations
    let known = load_known();
    let mut violations = 0u64;
    let mut known_hits: Vec<serde_json::Value> = vec![];
    let mut exit = 0;
    let mut viol_lines = vec![];
    for (class, agg_c) in &agg.classes {
        if let Some(k) = known_match(&known, prop, class) {
            println!("KNOWN-FINDING: property={prop} class=\"{class}\" occurrences={} {}", agg_c.count, k.text);
            known_hits.push(json!({"class": class, "occurrences": agg_c.count, "what": k.text}));
            // maintenance aid: (re)generate a minimised witness for each known finding
            if std::env::var("SIM_WITNESS_KNOWN").is_ok() {
                if let Some(w) = agg_c.first.clone() {
                    let n0 = w.spec.ops.len();
                    let (min, tried) = shrink(&w, 40, 200);
                    let path = write_replay(&min, verif_seed, tried, n0);
                    println!("  witness: {path}");
                }
            }
            continue;
        }
        violations += agg_c.count;
        exit = 1;
        let w = agg_c.first.clone().expect("witness");
        let original_ops = w.spec.ops.len();
        let (min, tried) = if viol_lines.len() < 6 { shrink(&w, 40, 200) } else { (w.clone(), 0) };
        let path = write_replay(&min, verif_seed, tried, original_ops);
        // replay once in a fresh process
        let st = Command::new(&exe).args(["replay", &path]).output();
        let confirmed = matches!(&st, Ok(o) if o.status.code() == Some(1));
        println!("violation: property={prop} class=\"{class}\" occurrences={} first at run index {}", agg_c.count, agg_c.first_idx);
        println!("  {}", min.violation.detail);
        println!("  minimised: {} -> {} ops, {} faults, schedule {}; {} candidates; fresh-process replay {}", original_ops, min.spec.ops.len(), min.spec.faults.len(), match &min.spec.sched { Sched::Default => "default".to_string(), Sched::Tape(t) => format!("tape[{} decisions, {} non-default]", t.len(), t.iter().filter(|x| **x != 255).count()), Sched::Prng{..} => "prng".to_string() }, tried, if confirmed { "reproduced it" } else { "DID NOT reproduce it" });
        println!("  ops: {:?}", min.spec.ops.iter().map(|o| o.short()).collect::<Vec<_>>());
        viol_lines.push(format!("VIOLATION property={prop} replay={path}"));
    }
    let mut name_sweep_n = 0u64;
    if prop == "C11" {
        match name_sweep() {
            Ok(n) => name_sweep_n = n,
            Err(e) => {
                violations += 1;
                exit = 1;
                println!("violation: property=C11 class=\"file-name-encoding\" {e}");
                let path = format!("{}/replays/C11-name-sweep.txt", out_dir());
                let _ = std::fs::create_dir_all(format!("{}/replays", out_dir()));
                let _ = std::fs::write(&path, format!("C11 file-name encoding sweep (not a simulation; re-run ./check C11 quick): {e}\n"));
                viol_lines.push(format!("VIOLATION property=C11 replay={path}"));
            }
        }
    }
    let _ = std::fs::remove_dir_all(scratch_root());
    let wall = t0.elapsed().as_secs_f64();
    // evidence
    let mut samples = agg.samples.clone();
    if samples.is_empty() {
        samples.push(json!({"note": "no non-trivial run in this batch"}));
    }
    let fault_kinds: BTreeMap<String, u64> = agg.faults_fired.clone();
    let ev = json!({
        "property_id": prop,
        "tier": if thorough { "thorough" } else { "quick" },
        "seed": verif_seed,
        "level": level_of(prop),
        "coverage": {
            "evaluations": agg.runs + agg.images + agg.nested_images,
            "distinct_nontrivial": agg.shapes.len() as u64 + if agg.images > 0 { agg.image_shapes.len() as u64 } else { 0 },
            "rule": rule_of(prop),
            "samples": samples,
            "simulated_runs": agg.runs,
            "nontrivial_runs": agg.nontrivial,
            "distinct_nontrivial_runs": agg.shapes.len(),
            "aborted_runs_not_judged": agg.aborted_runs,
            "abort_reasons": agg.abort_reasons,
            "runs_per_hour": if wall > 0.0 { (agg.runs as f64 / wall * 3600.0) as u64 } else { 0 },
            "seeds": format!("run seeds h({verif_seed}, {prop}, i) for i in 0..{}", b.runs),
            "scheduling_decisions": agg.decisions,
            "yield_points": agg.yields,
            "simulated_sleep_ns": agg.vclock_ns,
            "ops_executed": agg.ops,
            "records_journalled": agg.records,
            "trace_events": agg.fs_events,
            "max_simulated_threads_in_a_run": agg.max_threads,
            "faults_planned": agg.faults_planned,
            "faults_fired_by_kind": fault_kinds,
            "crash_images_opened_with_real_open": agg.images,
            "crash_images_by_kind": agg.image_kinds,
            "crash_image_outcomes": {"opened": agg.images_opened, "refused": agg.images_refused, "panicked": agg.images_panicked},
            "nested_recovery_crash_images": agg.nested_images,
            "distinct_crash_image_shapes": agg.image_shapes.len(),
            "probes": agg.probes,
            "lower_term_family_runs": agg.family_lower_runs,
            "stalls_observed": agg.stalls,
            "determinism_selfcheck_pairs": agg.selfcheck_pairs,
            "known_findings_hit": known_hits,
            "file_name_encoding_offsets_swept_not_simulation": name_sweep_n,
            "stopped_early_by_wall_clock_cap": agg.stopped_early,
            "components": {
                "real": ["raft-log (RaftLog, RaftLogWAL, FlushWorker, Chunk, RecordIterator, PayloadCache, FileLock, Dump)", "codeq", "fs2", "std::fs", "std::sync::mpsc", "tmpfs VFS + flock as page-cache view"],
                "simulated": ["thread scheduling (baton over parked OS threads)", "durability of fdatasync/fsync and crash images (shadow disk)", "I/O errors (interposed libc)", "nanosleep (virtual clock)"],
                "stub": ["flush callback type (records acks)", "other processes (modelled by threads)"]
            },
            "exhaustive": false
        },
        "assumptions": [
            "crash model of the properties: directory ops and ftruncate durable at return; unsynced bytes lost from any byte onward or zero-filled from a record boundary; a failed sync leaves data dirty",
            "switch points are libc calls and guarded hooks; sequentially consistent memory between them",
            "Types instance: LogId=(u64,u64), Vote=(u64,u64), payload/user data = String"
        ],
        "wall_s": wall,
        "violations": violations
    });
    let evdir = format!("{}/evidence", out_dir());
    let _ = std::fs::create_dir_all(&evdir);
    let mut f = std::fs::File::create(format!("{evdir}/{prop}.json")).expect("evidence file");
    f.write_all(serde_json::to_string_pretty(&ev).unwrap().as_bytes()).expect("write evidence");
    println!(
        "{prop} {}: {} runs ({} non-trivial, {} distinct, {} aborted/not judged), {} images ({} nested), {} decisions, {} violations, {} known-finding classes, {:.1}s",
        if thorough { "thorough" } else { "quick" },
        agg.runs,
        agg.nontrivial,
        agg.shapes.len(),
        agg.aborted_runs,
        agg.images,
        agg.nested_images,
        agg.decisions,
        violations,
        known_hits.len(),
        wall
    );
    for l in viol_lines {
        println!("{l}");
    }
    let _ = Call::Write;
    exit
}

/// Debug aid: print the trace of a replay file's run.
pub fn trace_cmd(path: &str) -> i32 {
    let s = std::fs::read_to_string(path).expect("read");
    let rf: ReplayFile = serde_json::from_str(&s).expect("parse");
    let root = format!("{}/r", scratch_root());
    let out = props::execute(&rf.property, &rf.witness.spec, &root);
    println!("cfg {:?} faults {:?} batch {}", rf.witness.spec.cfg, rf.witness.spec.faults, rf.witness.spec.flush_batch);
    for (i, e) in out.ep.trace.iter().enumerate() {
        match e {
            crate::core::Ev::Fs(f) => println!("{i:4} {} {:?} {} off={} len={} res={} {}", out.ep.thread_names.get(f.tid as usize).cloned().unwrap_or_default(), f.op, f.file, f.off, f.len, f.res, f.fault.map(|x| format!("FAULT {x:?}")).unwrap_or_default()),
            crate::core::Ev::H(h) => println!("{i:4}      {h:?}"),
        }
    }
    println!("violations: {:?}", out.violations);
    println!("aborted: {:?}; records {}; flushes {:?}", out.aborted, out.records.len(), out.flushes.iter().map(|f| (f.fid, f.nrec, f.upto)).collect::<Vec<_>>());
    let _ = std::fs::remove_dir_all(scratch_root());
    0
}

/// `sim hash <prop> <start> <step> <count>`: print "index trace-hash" for the given run indices.
pub fn hash_cmd(prop: &str, start: u64, step: u64, total: u64, verif_seed: u64) -> i32 {
    let root = format!("{}/r", scratch_root());
    let img = format!("{}/img", scratch_root());
    let mut idx = start;
    while idx < total {
        let seed = run_seed(verif_seed, prop, idx);
        let spec = props::make_spec(prop, seed);
        let out = props::execute(prop, &spec, &root);
        // include the post-hoc analysers' verdicts (quick tier) in the fingerprint
        let mut an = Analysis::default();
        props::analyse(prop, &spec, &out, false, None, &img, &mut an);
        let classes: Vec<String> = an.witnesses.iter().map(|(v, _)| v.class.clone()).collect();
        println!("{idx} {:016x} {:016x} {}", trace_hash(&out), rng::str_hash(&classes.join("|")), an.crash.images);
        idx += step;
    }
    let _ = std::fs::remove_dir_all(scratch_root());
    0
}

/// Determinism proof: every property, `n` run indices, executed (a) in one process and (b) strided
/// over 16 processes started concurrently; the two listings must be identical.
pub fn selfcheck_cmd(n: u64, verif_seed: u64) -> i32 {
    let exe = std::env::current_exe().expect("exe");
    let mut bad = 0;
    let mut pairs = 0;
    for prop in props::PROPS {
        let run = |start: u64, step: u64| -> Vec<String> {
            let o = Command::new(&exe).args(["hash", prop, &start.to_string(), &step.to_string(), &n.to_string()]).env("VERIF_SEED", verif_seed.to_string()).output().expect("run hash");
            String::from_utf8_lossy(&o.stdout).lines().map(|l| l.to_string()).collect()
        };
        let single = run(0, 1);
        let mut kids = vec![];
        for j in 0..16u64 {
            kids.push(
                Command::new(&exe)
                    .args(["hash", prop, &j.to_string(), "16", &n.to_string()])
                    .env("VERIF_SEED", verif_seed.to_string())
                    .stdout(std::process::Stdio::piped())
                    .spawn()
                    .expect("spawn hash"),
            );
        }
        let mut multi: Vec<String> = vec![];
        for k in kids {
            let o = k.wait_with_output().expect("wait");
            multi.extend(String::from_utf8_lossy(&o.stdout).lines().map(|l| l.to_string()));
        }
        multi.sort_by_key(|l| l.split(' ').next().unwrap().parse::<u64>().unwrap_or(0));
        pairs += single.len();
        if single.len() as u64 != n || single != multi {
            bad += 1;
            let diff = single.iter().zip(multi.iter()).find(|(a, b)| a != b);
            println!("selfcheck {prop}: MISMATCH ({} vs {} lines) first difference: {:?}", single.len(), multi.len(), diff);
        } else {
            println!("selfcheck {prop}: {n} runs identical in 1 process and strided over 16 concurrent processes");
        }
    }
    println!("selfcheck: {pairs} run pairs compared, {bad} properties with a mismatch");
    if bad > 0 {
        eprintln!("HARNESS-ERROR: nondeterminism");
        2
    } else {
        0
    }
}

/// C11, file-name encoding for all u64 offsets: a pure function, checked by a plain boundary sweep
/// through the public pair Config::chunk_path / RaftLog::load_chunk_ids (NOT simulation evidence;
/// reported separately). Returns the number of offsets checked.
pub fn name_sweep() -> Result<u64, String> {
    use crate::model::TT;
    let dir = format!("{}/names", scratch_root());
    let _ = std::fs::remove_dir_all(&dir);
    std::fs::create_dir_all(&dir).map_err(|e| e.to_string())?;
    let mut xs: Vec<u64> = vec![0, 1, u64::MAX, u64::MAX - 1];
    let mut p = 1u64;
    for _ in 0..20 {
        for d in [p.wrapping_sub(1), p, p.saturating_add(1), p.saturating_mul(9), p.saturating_mul(5).saturating_add(7)] {
            xs.push(d);
        }
        p = p.saturating_mul(10);
    }
    for b in 0..64 {
        let v = 1u64 << b;
        xs.push(v);
        xs.push(v - 1);
        xs.push(v.saturating_add(1));
    }
    xs.sort();
    xs.dedup();
    let cfg = raft_log::Config::new(&dir);
    for x in &xs {
        let path = cfg.chunk_path(raft_log::ChunkId(*x));
        let name = path.rsplit('/').next().unwrap_or("");
        if name != crate::shadow::chunk_name(*x) {
            return Err(format!("chunk_path({x}) = {name}, the documented encoding gives {}", crate::shadow::chunk_name(*x)));
        }
        std::fs::write(&path, b"").map_err(|e| e.to_string())?;
    }
    let ids = raft_log::RaftLog::<TT>::load_chunk_ids(&cfg).map_err(|e| e.to_string())?;
    let got: Vec<u64> = ids.iter().map(|c| c.offset()).collect();
    let _ = std::fs::remove_dir_all(&dir);
    if got != xs {
        let bad = xs.iter().zip(got.iter()).find(|(a, b)| a != b);
        return Err(format!("load_chunk_ids returned {} ids for {} files; first difference {:?}", got.len(), xs.len(), bad));
    }
    Ok(xs.len() as u64)
}
