//! The disk seam: libc symbol interposition. The static linker binds std's and fs2's
//! references to these definitions. Calls by non-simulated threads, on untracked fds/paths,
//! or inside `core::bypass` go straight to the kernel via `libc::syscall`.
//!
//! Every tracked call: (1) yield point, (2) fault plan lookup, (3) real call on tmpfs
//! (except fdatasync/fsync which are only recorded: durability is simulated),
//! (4) one event in the totally ordered trace.

use std::ffi::CStr;

use libc::{c_char, c_int, c_void, mode_t, off64_t, size_t, ssize_t};

use crate::core::{in_sim, lock, sim, tid, Call, Effect, Ev, FdInfo, FsEv, FsOp};

fn set_errno(e: i32) {
    unsafe { *libc::__errno_location() = e };
}
fn errno() -> i32 {
    unsafe { *libc::__errno_location() }
}

fn track_path(p: *const c_char) -> Option<String> {
    if p.is_null() {
        return None;
    }
    let s = unsafe { CStr::from_ptr(p) }.to_string_lossy().into_owned();
    let st = lock();
    if st.active && !st.root.is_empty() && s.starts_with(&st.root) {
        let rest = &s[st.root.len()..];
        if rest.starts_with('/') {
            return Some(rest.trim_start_matches('/').to_string());
        }
    }
    None
}

fn fd_name(fd: i32) -> Option<String> {
    let st = lock();
    if !st.active {
        return None;
    }
    st.fds.get(&fd).map(|f| f.name.clone())
}

/// Count the call, look it up in the fault plan. Returns the effect to apply, if any.
fn fault_for(call: Call) -> Option<Effect> {
    let mut st = lock();
    let k = call as usize;
    let n = st.counters[k];
    st.counters[k] += 1;
    if let Some(e) = st.pending_err[k].take() {
        return Some(Effect::Errno(e));
    }
    let mut hit = None;
    for (i, f) in st.faults.iter().enumerate() {
        if f.call == call && (f.nth == n || (f.sticky && n > f.nth)) {
            hit = Some((i, f.effect));
            break;
        }
    }
    if let Some((i, eff)) = hit {
        let pos = st.trace.len();
        st.fired.push((i, pos));
        if let Effect::Delay(ms) = eff {
            // a slow call: simulated time passes, nothing else changes
            st.vclock_ns += ms as u64 * 1_000_000;
            return None;
        }
        if let Effect::PartialThenErr(e) = eff {
            st.pending_err[k] = Some(e);
        }
        return Some(eff);
    }
    None
}

fn push(op: FsOp, file: String, off: u64, len: u64, data: Vec<u8>, res: i64, fault: Option<Effect>) {
    let me = tid().unwrap_or(255) as u8;
    let mut st = lock();
    if st.active {
        st.trace.push(Ev::Fs(FsEv { tid: me, op, file, off, len, data, res, fault }));
    }
}

unsafe fn raw_open(p: *const c_char, flags: c_int, mode: mode_t) -> c_int {
    libc::syscall(libc::SYS_openat, libc::AT_FDCWD, p, flags, mode as libc::c_uint) as c_int
}

#[no_mangle]
pub unsafe extern "C" fn open64(p: *const c_char, flags: c_int, mode: mode_t) -> c_int {
    if !in_sim() {
        return raw_open(p, flags, mode);
    }
    let Some(name) = track_path(p) else { return raw_open(p, flags, mode) };
    let creat = flags & libc::O_CREAT != 0 && flags & libc::O_EXCL != 0;
    sim().yield_point(if creat { "create" } else { "open" });
    let call = if creat { Call::Create } else { Call::Open };
    let op = if creat { FsOp::Create } else { FsOp::Open };
    if let Some(eff) = fault_for(call) {
        let e = match eff {
            Effect::Errno(e) | Effect::PartialThenErr(e) => e,
            Effect::Short | Effect::Delay(_) => libc::EMFILE,
        };
        push(op, name, 0, 0, vec![], -(e as i64), Some(eff));
        set_errno(e);
        return -1;
    }
    let fd = raw_open(p, flags, mode);
    let res = if fd >= 0 { 0 } else { -(errno() as i64) };
    if fd >= 0 {
        lock().fds.insert(fd, FdInfo { name: name.clone() });
    }
    push(op, name, 0, (flags & libc::O_TRUNC != 0) as u64, vec![], res, None);
    fd
}

#[no_mangle]
pub unsafe extern "C" fn open(p: *const c_char, flags: c_int, mode: mode_t) -> c_int {
    open64(p, flags, mode)
}

#[no_mangle]
pub unsafe extern "C" fn close(fd: c_int) -> c_int {
    if in_sim() {
        if let Some(name) = fd_name(fd) {
            lock().fds.remove(&fd);
            // closing releases a flock held through this description; it is a scheduling-relevant event
            sim().yield_point("close");
            let r = libc::syscall(libc::SYS_close, fd) as c_int;
            push(FsOp::Close, name, 0, 0, vec![], r as i64, None);
            return r;
        }
    }
    libc::syscall(libc::SYS_close, fd) as c_int
}

#[no_mangle]
pub unsafe extern "C" fn write(fd: c_int, buf: *const c_void, n: size_t) -> ssize_t {
    if in_sim() {
        if let Some(name) = fd_name(fd) {
            sim().yield_point("write");
            let off = libc::syscall(libc::SYS_lseek, fd, 0, libc::SEEK_CUR) as u64;
            let eff = fault_for(Call::Write);
            let mut want = n;
            match eff {
                Some(Effect::Errno(e)) => {
                    push(FsOp::Write, name, off, n as u64, vec![], -(e as i64), eff);
                    set_errno(e);
                    return -1;
                }
                Some(Effect::Short) | Some(Effect::PartialThenErr(_)) => {
                    want = if n > 1 { (n / 2).max(1) } else { n };
                }
                None | Some(Effect::Delay(_)) => {}
            }
            let r = libc::syscall(libc::SYS_write, fd, buf, want) as ssize_t;
            let res = if r >= 0 { r as i64 } else { -(errno() as i64) };
            let data = std::slice::from_raw_parts(buf as *const u8, r.max(0) as usize).to_vec();
            push(FsOp::Write, name, off, n as u64, data, res, eff);
            return r;
        }
    }
    libc::syscall(libc::SYS_write, fd, buf, n) as ssize_t
}

#[no_mangle]
pub unsafe extern "C" fn fdatasync(fd: c_int) -> c_int {
    if in_sim() {
        if let Some(name) = fd_name(fd) {
            sim().yield_point("fdatasync");
            if let Some(eff) = fault_for(Call::Fdatasync) {
                let e = match eff {
                    Effect::Errno(e) | Effect::PartialThenErr(e) => e,
                    Effect::Short | Effect::Delay(_) => libc::EIO,
                };
                push(FsOp::Fdatasync, name, 0, 0, vec![], -(e as i64), Some(eff));
                set_errno(e);
                return -1;
            }
            push(FsOp::Fdatasync, name, 0, 0, vec![], 0, None);
            return 0;
        }
    }
    libc::syscall(libc::SYS_fdatasync, fd) as c_int
}

#[no_mangle]
pub unsafe extern "C" fn fsync(fd: c_int) -> c_int {
    if in_sim() {
        if let Some(name) = fd_name(fd) {
            sim().yield_point("fsync");
            if let Some(eff) = fault_for(Call::Fsync) {
                let e = match eff {
                    Effect::Errno(e) | Effect::PartialThenErr(e) => e,
                    Effect::Short | Effect::Delay(_) => libc::EIO,
                };
                push(FsOp::Fsync, name, 0, 0, vec![], -(e as i64), Some(eff));
                set_errno(e);
                return -1;
            }
            push(FsOp::Fsync, name, 0, 0, vec![], 0, None);
            return 0;
        }
    }
    libc::syscall(libc::SYS_fsync, fd) as c_int
}

#[no_mangle]
pub unsafe extern "C" fn ftruncate64(fd: c_int, len: off64_t) -> c_int {
    if in_sim() {
        if let Some(name) = fd_name(fd) {
            sim().yield_point("ftruncate");
            if let Some(eff) = fault_for(Call::Ftruncate) {
                let e = match eff {
                    Effect::Errno(e) | Effect::PartialThenErr(e) => e,
                    Effect::Short | Effect::Delay(_) => libc::EIO,
                };
                push(FsOp::Ftruncate, name, len as u64, 0, vec![], -(e as i64), Some(eff));
                set_errno(e);
                return -1;
            }
            let r = libc::syscall(libc::SYS_ftruncate, fd, len) as c_int;
            let res = if r >= 0 { 0 } else { -(errno() as i64) };
            push(FsOp::Ftruncate, name, len as u64, 0, vec![], res, None);
            return r;
        }
    }
    libc::syscall(libc::SYS_ftruncate, fd, len) as c_int
}

#[no_mangle]
pub unsafe extern "C" fn ftruncate(fd: c_int, len: off64_t) -> c_int {
    ftruncate64(fd, len)
}

#[no_mangle]
pub unsafe extern "C" fn unlink(p: *const c_char) -> c_int {
    if in_sim() {
        if let Some(name) = track_path(p) {
            sim().yield_point("unlink");
            if let Some(eff) = fault_for(Call::Unlink) {
                let e = match eff {
                    Effect::Errno(e) | Effect::PartialThenErr(e) => e,
                    Effect::Short | Effect::Delay(_) => libc::EIO,
                };
                push(FsOp::Unlink, name, 0, 0, vec![], -(e as i64), Some(eff));
                set_errno(e);
                return -1;
            }
            let r = libc::syscall(libc::SYS_unlink, p) as c_int;
            let res = if r >= 0 { 0 } else { -(errno() as i64) };
            push(FsOp::Unlink, name, 0, 0, vec![], res, None);
            return r;
        }
    }
    libc::syscall(libc::SYS_unlink, p) as c_int
}

#[no_mangle]
pub unsafe extern "C" fn pread64(fd: c_int, b: *mut c_void, n: size_t, off: off64_t) -> ssize_t {
    if in_sim() && fd_name(fd).is_some() {
        sim().yield_point("pread");
        lock().reads += 1;
        let mut want = n;
        match fault_for(Call::Pread) {
            Some(Effect::Errno(e)) | Some(Effect::PartialThenErr(e)) => {
                set_errno(e);
                return -1;
            }
            Some(Effect::Short) => want = if n > 1 { (n / 2).max(1) } else { n },
            None | Some(Effect::Delay(_)) => {}
        }
        return libc::syscall(libc::SYS_pread64, fd, b, want, off) as ssize_t;
    }
    libc::syscall(libc::SYS_pread64, fd, b, n, off) as ssize_t
}

#[no_mangle]
pub unsafe extern "C" fn pread(fd: c_int, b: *mut c_void, n: size_t, off: off64_t) -> ssize_t {
    pread64(fd, b, n, off)
}

#[no_mangle]
pub unsafe extern "C" fn read(fd: c_int, b: *mut c_void, n: size_t) -> ssize_t {
    if in_sim() && fd_name(fd).is_some() {
        sim().yield_point("read");
        lock().reads += 1;
        let mut want = n;
        match fault_for(Call::Read) {
            Some(Effect::Errno(e)) | Some(Effect::PartialThenErr(e)) => {
                set_errno(e);
                return -1;
            }
            Some(Effect::Short) => want = if n > 1 { (n / 2).max(1) } else { n },
            None | Some(Effect::Delay(_)) => {}
        }
        return libc::syscall(libc::SYS_read, fd, b, want) as ssize_t;
    }
    libc::syscall(libc::SYS_read, fd, b, n) as ssize_t
}

#[no_mangle]
pub unsafe extern "C" fn flock(fd: c_int, op: c_int) -> c_int {
    if in_sim() {
        if let Some(name) = fd_name(fd) {
            sim().yield_point("flock");
            let r = libc::syscall(libc::SYS_flock, fd, op) as c_int;
            let res = if r >= 0 { 0 } else { -(errno() as i64) };
            let fop = if op & libc::LOCK_UN != 0 { FsOp::Funlock } else { FsOp::Flock };
            push(fop, name, 0, 0, vec![], res, None);
            return r;
        }
    }
    libc::syscall(libc::SYS_flock, fd, op) as c_int
}

fn sim_sleep(ns: u64) {
    {
        let mut st = lock();
        st.vclock_ns += ns.max(1);
        st.epoch += 1;
    }
    if !sim().blocked("nanosleep") {
        // nobody else can run: simulated time simply passes. A sleeper that waits for something that
        // can never happen (e.g. wait_worker_idle with a dead worker) is stopped after a simulated day.
        let mut st = lock();
        st.sleep_stall_streak += 1;
        if st.sleep_stall_streak > 2_000_000 || st.vclock_ns > 86_400_000_000_000 * 30 {
            drop(st);
            eprintln!("HARNESS-ERROR: a simulated thread sleeps forever waiting for progress nobody can make (e.g. wait_worker_idle with a dead worker)");
            std::process::exit(2);
        }
    }
}

/// Simulated threads read the virtual clock (advanced by simulated sleeps, and by 1 us per
/// reading so that a busy-wait on the clock terminates).
const VCLOCK_BASE_S: i64 = 1_000_000;

#[no_mangle]
pub unsafe extern "C" fn clock_gettime(clk: libc::clockid_t, ts: *mut libc::timespec) -> c_int {
    if in_sim() && !ts.is_null() && matches!(clk, libc::CLOCK_MONOTONIC | libc::CLOCK_REALTIME | libc::CLOCK_BOOTTIME | libc::CLOCK_MONOTONIC_COARSE | libc::CLOCK_REALTIME_COARSE | libc::CLOCK_MONOTONIC_RAW) {
        let ns = {
            let mut st = lock();
            if st.active {
                st.vclock_ns += 1_000;
                Some(st.vclock_ns)
            } else {
                None
            }
        };
        if let Some(ns) = ns {
            (*ts).tv_sec = (VCLOCK_BASE_S + (ns / 1_000_000_000) as i64) as libc::time_t;
            (*ts).tv_nsec = (ns % 1_000_000_000) as _;
            return 0;
        }
    }
    libc::syscall(libc::SYS_clock_gettime, clk, ts) as c_int
}

type PthreadJoinFn = unsafe extern "C" fn(libc::pthread_t, *mut *mut c_void) -> c_int;

/// `JoinHandle::join` ends here. A simulated thread joining another simulated thread waits in
/// simulated time (the scheduler runs the others until the joined one has exited); only then is
/// the real join called, which returns as soon as the OS thread has finished its teardown.
#[no_mangle]
pub unsafe extern "C" fn pthread_join(t: libc::pthread_t, ret: *mut *mut c_void) -> c_int {
    if in_sim() {
        crate::core::join_wait_pthread(t);
    }
    static REAL: std::sync::OnceLock<usize> = std::sync::OnceLock::new();
    let f = *REAL.get_or_init(|| libc::dlsym(libc::RTLD_NEXT, b"pthread_join\0".as_ptr() as *const c_char) as usize);
    if f == 0 {
        return libc::EINVAL;
    }
    let real: PthreadJoinFn = std::mem::transmute(f);
    real(t, ret)
}

#[no_mangle]
pub unsafe extern "C" fn nanosleep(a: *const libc::timespec, b: *mut libc::timespec) -> c_int {
    if in_sim() {
        let ns = if a.is_null() { 0 } else { (*a).tv_sec as u64 * 1_000_000_000 + (*a).tv_nsec as u64 };
        sim_sleep(ns);
        return 0;
    }
    libc::syscall(libc::SYS_nanosleep, a, b) as c_int
}

#[no_mangle]
pub unsafe extern "C" fn clock_nanosleep(
    clk: libc::clockid_t,
    flags: c_int,
    a: *const libc::timespec,
    b: *mut libc::timespec,
) -> c_int {
    if in_sim() {
        let ns = if a.is_null() { 0 } else { (*a).tv_sec as u64 * 1_000_000_000 + (*a).tv_nsec as u64 };
        sim_sleep(ns);
        return 0;
    }
    // clock_nanosleep returns the error number directly
    let r = libc::syscall(libc::SYS_clock_nanosleep, clk, flags, a, b);
    if r < 0 {
        errno()
    } else {
        0
    }
}
