//! Scenario executor: runs one explicit `Spec` against the real store under the simulator,
//! keeps the reference model in step, applies the inline oracles, and returns the trace and the
//! bookkeeping the post-hoc analysers (crash images, ack coverage, unlink structure, journal
//! parse) need.

use std::collections::BTreeMap;
use std::panic::{catch_unwind, AssertUnwindSafe};
use std::sync::{Arc, Mutex};

use raft_log::api::raft_log_writer::RaftLogWriter;
use raft_log::codeq::OffsetSize;
use raft_log::{DumpApi, RaftLog};
use serde::{Deserialize, Serialize};

use crate::core::{self, Chooser, EpisodeCfg, EpisodeOut, Ev, HEv};
use crate::model::{real_state, Cb, LogId, MState, Model, Vote, TT};
use crate::ops::{Cfg, Op, Sched, Spec};
use crate::rng::Rng;

#[derive(Clone, Debug, PartialEq, Eq, Serialize, Deserialize)]
pub struct Violation {
    pub prop: String,
    /// stable classification used for de-duplication, known-finding matching and shrinking
    pub class: String,
    pub detail: String,
    pub op_index: i64,
}

/// Which inline oracles are switched on (each check enables only its own property's oracles;
/// the others merely keep the model in step and abort the run, without alarm, on divergence).
#[derive(Clone, Debug, Default)]
pub struct Oracles {
    pub prop: String,
    pub model_eq: bool,     // C01/C02: state + reads equal the model after every op
    pub restart_eq: bool,   // C02
    pub reject_clean: bool, // C06
    pub reads_ok: bool,     // C07
    pub cache_acct: bool,   // C15
    pub no_panic: bool,     // C16 (panics are always caught; this makes them this property's violation)
    pub liveness: bool,     // C04: fault-free flushes must be acknowledged
    pub reopen_ok: bool,    // C14
}

/// A model-level record (one accepted, journalled write).
#[derive(Clone, Debug, PartialEq, Eq)]
pub enum MRec {
    Vote(Vote),
    Append(LogId, String),
    TruncateAfter(Option<LogId>),
    Purge(LogId),
    Commit(LogId),
    /// user data is journalled as a full State record
    State(MState),
}

#[derive(Clone, Debug)]
pub struct RecInfo {
    pub op_index: usize,
    pub rec: MRec,
    /// trace length when the call was issued / had returned
    pub t_issue: usize,
    pub t_return: usize,
    /// Segment returned by the call (offset, size); for a batch only the last entry has it
    pub seg: Option<(u64, u64)>,
    /// store generation (which open) journalled it
    pub generation: u32,
    /// the caller saw an error although the record was applied (fault runs only)
    pub uncertain: bool,
}

#[derive(Clone, Debug)]
pub struct FlushInfo {
    pub fid: u32,
    pub nrec: usize,
    pub upto: u64,
    pub t_req: usize,
    pub generation: u32,
    pub waited: bool,
    pub send_ok: bool,
    pub with_cb: bool,
}

#[derive(Clone, Debug)]
pub struct QuiescentPoint {
    pub t: usize,
    pub nrec: usize,
    pub generation: u32,
    pub on_disk_size: u64,
    pub stat_chunks: Vec<(u64, u64, u64)>, // (global_start, global_end, records_count), closed then open
    pub index: Vec<(u64, LogId, u64, u64, u64)>, // (index, log id, chunk id, seg offset, seg size)
    pub cfg: Cfg,
}

#[derive(Clone, Debug)]
pub struct OpenInfo {
    pub generation: u32,
    pub t_begin: usize,
    pub t_end: usize,
    pub ok: bool,
    pub err: String,
    pub cfg: Cfg,
    /// number of accepted records when this store was opened
    pub nrec: usize,
    pub raced: bool,
}

pub struct RunOut {
    pub ep: EpisodeOut,
    pub violations: Vec<Violation>,
    pub aborted: Option<String>,
    pub records: Vec<RecInfo>,
    pub flushes: Vec<FlushInfo>,
    pub quiescent: Vec<QuiescentPoint>,
    pub opens: Vec<OpenInfo>,
    pub probes: BTreeMap<String, u64>,
    pub family_lower: bool,
    pub caller_errors: u32,
    pub ops_done: usize,
    pub model: Model,
    pub root: String,
    /// model the run started from (default unless it continued a recovered image)
    pub initial_model: Model,
}

impl RunOut {
    /// Model after the first j records (S_j), for all j.
    pub fn prefix_models(&self) -> Vec<Model> {
        let mut out = Vec::with_capacity(self.records.len() + 1);
        let mut m = self.initial_model.clone();
        out.push(m.clone());
        for r in &self.records {
            apply_rec(&mut m, &r.rec);
            out.push(m.clone());
        }
        out
    }
}

pub fn apply_rec(m: &mut Model, r: &MRec) {
    match r {
        MRec::Vote(v) => {
            let _ = m.save_vote(*v);
        }
        MRec::Append(id, p) => {
            let _ = m.append_one(*id, p.clone());
        }
        MRec::TruncateAfter(a) => m.truncate_after(*a),
        MRec::Purge(id) => {
            m.purge(*id);
        }
        MRec::Commit(id) => {
            let _ = m.commit(*id);
        }
        MRec::State(s) => m.st = s.clone(),
    }
}

pub fn panic_msg(e: &(dyn std::any::Any + Send)) -> String {
    if let Some(s) = e.downcast_ref::<&str>() {
        s.to_string()
    } else if let Some(s) = e.downcast_ref::<String>() {
        s.clone()
    } else {
        "<non-string panic>".into()
    }
}

thread_local! {
    pub static LAST_PANIC_LOC: std::cell::RefCell<String> = const { std::cell::RefCell::new(String::new()) };
}
pub static PANIC_LOCS: Mutex<Vec<(String, String)>> = Mutex::new(Vec::new());

pub fn install_panic_hook() {
    std::panic::set_hook(Box::new(|info| {
        let loc = info.location().map(|l| format!("{}:{}", l.file().rsplit("/src/").next().unwrap_or(l.file()), l.line())).unwrap_or_default();
        let th = std::thread::current().name().unwrap_or("?").to_string();
        if std::env::var("SIM_DEBUG").is_ok() {
            eprintln!("[panic] thread {th} at {loc}: {info}");
        }
        if let Ok(mut v) = PANIC_LOCS.lock() {
            v.push((th, loc.clone()));
        }
        let _ = LAST_PANIC_LOC.try_with(|l| *l.borrow_mut() = loc);
    }));
}

/// Stable panic class: source file (no line number, so that unrelated edits do not rename it)
/// plus the leading words of the message.
pub fn panic_class(loc: &str, msg: &str) -> String {
    let file = loc.rsplit_once(':').map(|x| x.0).unwrap_or(loc);
    let head: String = msg.chars().take_while(|c| !c.is_ascii_digit() && *c != '`' && *c != '\'' && *c != ':').take(48).collect();
    format!("{}:{}", file, head.trim())
}

pub fn last_panic_loc() -> String {
    LAST_PANIC_LOC.with(|l| l.borrow().clone())
}

fn norm_err(e: &std::io::Error) -> String {
    // stable error class: kind + the leading words of the message without numbers/paths
    let msg = e.to_string();
    let head: String = msg.chars().take_while(|c| !c.is_ascii_digit() && *c != '\'' && *c != '/').collect();
    format!("{:?}:{}", e.kind(), head.trim().trim_end_matches(':').trim_end_matches('(').trim())
}

pub struct Exec<'a> {
    pub spec: &'a Spec,
    pub or: &'a Oracles,
    pub root: String,
    pub rl: Option<RaftLog<TT>>,
    pub cfg: Cfg,
    pub model: Model,
    pub generation: u32,
    pub next_fid: u32,
    pub records: Vec<RecInfo>,
    pub flushes: Vec<FlushInfo>,
    pub quiescent: Vec<QuiescentPoint>,
    pub opens: Vec<OpenInfo>,
    pub viol: Vec<Violation>,
    pub aborted: Option<String>,
    pub probes: BTreeMap<String, u64>,
    pub max_id_ever: Option<LogId>,
    pub family_lower: bool,
    pub caller_errors: u32,
    pub faulty: bool,
    pub cur_op: i64,
    pub aux: Rng,
    pub worker_dead_seen: bool,
    /// a snapshot taken by Op::Snapshot with the entries that were live at that moment
    pub held: Option<(raft_log::DumpRaftLog<TT>, Vec<(LogId, String)>)>,
}

impl<'a> Exec<'a> {
    fn probe(&mut self, k: &str) {
        *self.probes.entry(k.to_string()).or_default() += 1;
    }

    fn violate(&mut self, class: impl Into<String>, detail: impl Into<String>) {
        let v = Violation { prop: self.or.prop.clone(), class: class.into(), detail: detail.into(), op_index: self.cur_op };
        if self.viol.len() < 8 {
            self.viol.push(v);
        }
    }

    fn abort(&mut self, why: impl Into<String>) {
        if self.aborted.is_none() {
            self.aborted = Some(why.into());
        }
    }

    /// Either a violation of the running property (if `mine`) or a silent abort of the run.
    fn diverge(&mut self, mine: bool, class: &str, detail: String) {
        if mine {
            self.violate(class, detail);
        } else {
            self.abort(format!("{class}: {detail}"));
        }
    }

    fn do_open(&mut self, cfg: &Cfg, raced: bool) -> bool {
        let t_begin = core::trace_len();
        let config = cfg.to_config(&self.root);
        let g = self.generation + 1;
        let res = catch_unwind(AssertUnwindSafe(|| RaftLog::<TT>::open(config)));
        self.generation = g;
        let t_end = core::trace_len();
        let (ok, err) = match res {
            Ok(Ok(rl)) => {
                self.rl = Some(rl);
                (true, String::new())
            }
            Ok(Err(e)) => (false, norm_err(&e)),
            Err(p) => (false, format!("panic:{}:{}", last_panic_loc(), panic_msg(&*p).chars().take(80).collect::<String>())),
        };
        core::ev(HEv::StoreOpen { generation: g, ok });
        self.opens.push(OpenInfo { generation: g, t_begin, t_end, ok, err, cfg: cfg.clone(), nrec: self.records.len(), raced });
        self.cfg = cfg.clone();
        ok
    }

    fn do_drop(&mut self) {
        self.held = None;
        if let Some(rl) = self.rl.take() {
            // C14's precondition: the last flush covered every record and was acknowledged Ok
            let clean = self.flushes.last().map(|f| f.generation == self.generation && f.nrec == self.records.len() && f.with_cb && core::acked(f.fid) == Some(true)).unwrap_or(false);
            core::ev(HEv::DropBegin { generation: self.generation });
            drop(rl);
            core::ev(HEv::DropEnd { generation: self.generation, clean });
            core::sim().progress();
        }
    }

    /// The owner panics after its flush was acknowledged: the store is dropped while unwinding.
    fn do_drop_unwinding(&mut self) {
        self.held = None;
        if let Some(rl) = self.rl.take() {
            let clean = self.flushes.last().map(|f| f.generation == self.generation && f.nrec == self.records.len() && f.with_cb && core::acked(f.fid) == Some(true)).unwrap_or(false);
            core::ev(HEv::DropBegin { generation: self.generation });
            let _ = catch_unwind(AssertUnwindSafe(move || {
                let _owner = rl;
                panic!("simulated owner panic after the flush acknowledgement");
            }));
            core::ev(HEv::DropEnd { generation: self.generation, clean });
            core::sim().progress();
        }
    }

    fn rl(&self) -> &RaftLog<TT> {
        self.rl.as_ref().unwrap()
    }

    fn full_read(&self) -> Result<Vec<Result<(LogId, String), String>>, String> {
        let rl = self.rl();
        catch_unwind(AssertUnwindSafe(|| rl.read(0, u64::MAX).map(|r| r.map_err(|e| norm_err(&e))).collect::<Vec<_>>()))
            .map_err(|p| format!("panic:{}:{}", last_panic_loc(), panic_msg(&*p)))
    }

    /// Compare a read result with the model. Returns a (class, detail) on mismatch.
    fn cmp_read(&self, got: &[Result<(LogId, String), String>], want: &[(LogId, String)]) -> Option<(String, String)> {
        for (i, g) in got.iter().enumerate() {
            if let Err(e) = g {
                let fam = if self.family_lower { "lower-term-family" } else { "monotone-family" };
                return Some((format!("read-err:{fam}:{e}"), format!("entry #{i} of {} unreadable: {e}", got.len())));
            }
        }
        let got_ok: Vec<&(LogId, String)> = got.iter().map(|g| g.as_ref().unwrap()).collect();
        if got_ok.len() != want.len() {
            return Some((
                "read-mismatch:count".into(),
                format!("got {} entries {:?}, want {} {:?}", got_ok.len(), got_ok.iter().map(|e| e.0).collect::<Vec<_>>(), want.len(), want.iter().map(|e| e.0).collect::<Vec<_>>()),
            ));
        }
        for (g, w) in got_ok.iter().zip(want.iter()) {
            if g.0 != w.0 {
                return Some(("read-mismatch:log-id".into(), format!("got {:?} want {:?}", g.0, w.0)));
            }
            if g.1 != w.1 {
                return Some((
                    "read-mismatch:payload".into(),
                    format!("log id {:?}: got payload {:?}.. ({} bytes) want {:?}.. ({} bytes)", g.0, g.1.chars().take(12).collect::<String>(), g.1.len(), w.1.chars().take(12).collect::<String>(), w.1.len()),
                ));
            }
        }
        None
    }

    /// State and reads must equal the model. `mine` = this is the running property's own oracle.
    fn check_model_eq(&mut self, mine: bool, when: &str) {
        if self.rl.is_none() {
            return;
        }
        let st = real_state(self.rl());
        if st != self.model.st {
            let d = format!("{when}: state {:?} != model {:?}", st, self.model.st);
            self.diverge(mine, "state-mismatch", d);
            return;
        }
        let want = self.model.all();
        match self.full_read() {
            Err(p) => self.violate("panic:read".to_string(), p),
            Ok(got) => {
                if let Some((class, detail)) = self.cmp_read(&got, &want) {
                    let is_err = class.starts_with("read-err");
                    let mine2 = if is_err { mine || self.or.reads_ok } else { mine };
                    self.diverge(mine2, &class, format!("{when}: {detail}"));
                    return;
                }
            }
        }
        // one more range, chosen by an auxiliary stream (never the run's decision stream)
        let lo = self.model.st.purged.map(|p| p.1).unwrap_or(0).saturating_sub(1);
        let hi = self.model.st.last.map(|l| l.1).unwrap_or(0).saturating_add(2);
        let a = self.aux.range(lo, hi);
        let b = self.aux.range(a, hi);
        let rl = self.rl();
        let got = catch_unwind(AssertUnwindSafe(|| rl.read(a, b).map(|r| r.map_err(|e| norm_err(&e))).collect::<Vec<_>>()));
        match got {
            Err(p) => self.violate("panic:read", format!("read({a},{b}): {}", panic_msg(&*p))),
            Ok(got) => {
                let want = self.model.read(a, b);
                if let Some((class, detail)) = self.cmp_read(&got, &want) {
                    let is_err = class.starts_with("read-err");
                    let mine2 = if is_err { mine || self.or.reads_ok } else { mine };
                    self.diverge(mine2, &class, format!("{when}: read({a},{b}): {detail}"));
                }
            }
        }
    }

    fn check_stat(&mut self, mine_c01: bool) {
        if self.rl.is_none() {
            return;
        }
        let st = self.rl().stat();
        // C01: chunk bookkeeping self-consistent: closed chunks abut, then the open chunk
        let mut prev_end: Option<u64> = None;
        let mut bad = None;
        for c in st.closed_chunks.iter().chain(std::iter::once(&st.open_chunk)) {
            if let Some(pe) = prev_end {
                if pe != c.global_start {
                    bad = Some(format!("chunk {} starts at {} but previous ends at {}", c.chunk_id, c.global_start, pe));
                }
            }
            if c.global_end < c.global_start || c.size != c.global_end - c.global_start || c.chunk_id.offset() != c.global_start {
                bad = Some(format!("chunk {} inconsistent: start {} end {} size {}", c.chunk_id, c.global_start, c.global_end, c.size));
            }
            prev_end = Some(c.global_end);
        }
        if let Some(b) = bad {
            self.diverge(mine_c01, "stat-inconsistent", b);
        }
        if self.or.cache_acct {
            self.check_cache_acct("stat");
        }
    }

    /// C15: reported count/size equal the resident set; over-limit only with pinned entries.
    fn check_cache_acct(&mut self, when: &str) {
        let rl = self.rl();
        let st = rl.stat();
        let res = rl.verif_cache_resident();
        let n = res.len() as u64;
        let sz: u64 = res.iter().map(|r| r.1).sum();
        if st.payload_cache_item_count != n || st.payload_cache_size != sz {
            let d = format!(
                "{when}: stat reports {} items / {} bytes, resident set has {} items / {} bytes",
                st.payload_cache_item_count, st.payload_cache_size, n, sz
            );
            self.violate("cache-acct:stat-vs-resident", d);
        }
    }

    fn check_cache_overflow(&mut self, when: &str) {
        let rl = self.rl();
        let st = rl.stat();
        let res = rl.verif_cache_resident();
        let over = st.payload_cache_item_count > st.payload_cache_max_item || st.payload_cache_size > st.payload_cache_capacity;
        if over {
            self.probe("cache_over_limit_pinned");
            if let Some(b) = st.payload_cache_last_evictable {
                if let Some(r) = res.iter().find(|r| r.0 <= b) {
                    let d = format!(
                        "{when}: cache over limit ({} items max {}, {} bytes cap {}) yet resident {:?} <= evictable boundary {:?}",
                        st.payload_cache_item_count, st.payload_cache_max_item, st.payload_cache_size, st.payload_cache_capacity, r.0, b
                    );
                    self.violate("cache-acct:evictable-resident-over-limit", d);
                }
            }
        }
    }

    fn snapshot_for_reject(&self) -> (MState, Vec<Result<(LogId, String), String>>, u64, u64, u64, u64) {
        let rl = self.rl();
        let st = rl.stat();
        (real_state(rl), self.full_read().unwrap_or_default(), st.payload_cache_item_count, st.payload_cache_size, st.open_chunk.global_end, st.open_chunk.records_count)
    }

    /// Execute one write op against store and model.
    fn do_write(&mut self, i: usize, op: &Op) {
        // what does the specification say?
        let mut after = self.model.clone();
        let mut recs: Vec<MRec> = vec![];
        let mut expect_err = false;
        match op {
            Op::Vote(v) => match after.save_vote(*v) {
                Ok(()) => recs.push(MRec::Vote(*v)),
                Err(_) => expect_err = true,
            },
            Op::Append(es) => {
                for (id, p) in es {
                    let payload = p.build();
                    match after.append_one(*id, payload.clone()) {
                        Ok(()) => recs.push(MRec::Append(*id, payload)),
                        Err(_) => {
                            expect_err = true;
                            break;
                        }
                    }
                }
            }
            Op::Truncate(idx) => match after.truncate_target(*idx) {
                Ok(a) => {
                    after.truncate_after(a);
                    recs.push(MRec::TruncateAfter(a));
                }
                Err(_) => expect_err = true,
            },
            Op::Purge(id) => {
                if after.purge(*id) {
                    recs.push(MRec::Purge(*id));
                }
            }
            Op::Commit(id) => match after.commit(*id) {
                Ok(()) => recs.push(MRec::Commit(*id)),
                Err(_) => expect_err = true,
            },
            Op::UserData(d) => {
                after.save_user_data(d.clone());
                recs.push(MRec::State(after.st.clone()));
            }
            Op::UpdateLast(l) => {
                // a State record replaces the state wholesale; index and cache are not touched
                after.st.last = *l;
                recs.push(MRec::State(after.st.clone()));
            }
            _ => unreachable!(),
        }
        let check_reject = expect_err && self.or.reject_clean;
        let pure_reject = expect_err && recs.is_empty();
        let before_snap = if check_reject && pure_reject { Some(self.snapshot_for_reject()) } else { None };
        if expect_err {
            self.probe("rejected_op");
        }
        let t_issue = core::trace_len();
        let wsteps_before = core::worker_steps();
        let chunks_before = self.rl().stat().closed_chunks.len();
        let rl = self.rl.as_mut().unwrap();
        let res = catch_unwind(AssertUnwindSafe(|| match op {
            Op::Vote(v) => rl.save_vote(*v),
            Op::Append(es) => rl.append(es.iter().map(|(id, p)| (*id, p.build()))),
            Op::Truncate(idx) => rl.truncate(*idx),
            Op::Purge(id) => rl.purge(*id),
            Op::Commit(id) => rl.commit(*id),
            Op::UserData(d) => rl.save_user_data(d.clone()),
            Op::UpdateLast(l) => {
                let mut st = rl.log_state().clone();
                st.set_last(*l);
                rl.update_state(st)
            }
            _ => unreachable!(),
        }));
        let t_return = core::trace_len();
        let res = match res {
            Err(p) => {
                let loc = last_panic_loc();
                self.violate(format!("panic:{}:{}", panic_class(&loc, &panic_msg(&*p)), op_kind(op)), format!("{} panicked at {}: {}", op.short(), loc, panic_msg(&*p)));
                self.abort("panic in write op");
                return;
            }
            Ok(r) => r,
        };
        let generation = self.generation;
        let mut push_recs = |me: &mut Self, recs: Vec<MRec>, seg: Option<(u64, u64)>, uncertain: bool| {
            let n = recs.len();
            for (k, r) in recs.into_iter().enumerate() {
                if let MRec::Append(id, _) = &r {
                    if Some(*id) <= me.max_id_ever {
                        me.family_lower = true;
                    }
                    me.max_id_ever = me.max_id_ever.max(Some(*id));
                }
                me.records.push(RecInfo { op_index: i, rec: r, t_issue, t_return, seg: if k + 1 == n { seg } else { None }, generation, uncertain });
                core::ev(HEv::Rec(me.records.len() as u32));
            }
        };
        match (res, expect_err) {
            (Ok(seg), false) => {
                let seg = Some((seg.offset().0, *seg.size()));
                push_recs(self, recs, seg, false);
                self.model = after;
            }
            (Err(e), true) => {
                // rejected as specified; a batch may have applied its good prefix
                let _ = e;
                push_recs(self, recs, None, false);
                self.model = after;
                if let Some(b) = before_snap {
                    let now = self.snapshot_for_reject();
                    if now != b {
                        let d = format!(
                            "{} was rejected but left a trace: state {:?} -> {:?}; cache items {} -> {}, cache bytes {} -> {}; journal end {} -> {}; reads {} -> {} entries",
                            op.short(), b.0, now.0, b.2, now.2, b.3, now.3, b.4, now.4, b.1.len(), now.1.len()
                        );
                        let class = if now.0 != b.0 {
                            "reject-trace:state"
                        } else if now.1 != b.1 {
                            "reject-trace:reads"
                        } else if now.4 != b.4 || now.5 != b.5 {
                            "reject-trace:journalled"
                        } else {
                            "reject-trace:cache-stat"
                        };
                        self.violate(format!("{class}:{}", op_kind(op)), d);
                    }
                }
            }
            (Ok(_), true) => {
                let mine = self.or.reject_clean || self.or.model_eq;
                self.diverge(mine, &format!("reject-accepted:{}", op_kind(op)), format!("{} must be rejected by the specification but returned Ok", op.short()));
                self.abort("model out of step");
            }
            (Err(e), false) => {
                self.caller_errors += 1;
                if self.faulty {
                    // narrow relaxation: the op (or, for a batch, a prefix of it) was applied or it was not
                    let st = real_state(self.rl());
                    let got = self.full_read().unwrap_or_default();
                    let mut steps: Vec<(usize, Model)> = vec![];
                    {
                        let mut m = self.model.clone();
                        for (k, r) in recs.iter().enumerate() {
                            apply_rec(&mut m, r);
                            steps.push((k + 1, m.clone()));
                        }
                    }
                    let reads_ok = |m: &Model| -> bool {
                        // under faults a read may fail, but what it returns must be right
                        if got.iter().any(|g| g.is_err()) {
                            let want = m.all();
                            got.len() == want.len() && got.iter().zip(want.iter()).all(|(g, w)| g.as_ref().map(|g| g == w).unwrap_or(true))
                        } else {
                            self.cmp_read(&got, &m.all()).is_none()
                        }
                    };
                    let hit = steps.iter().rev().find(|(_, m)| m.st == st && reads_ok(m) && *m != self.model).map(|(k, m)| (*k, m.clone()));
                    if let Some((k, m)) = hit {
                        let mut recs = recs;
                        recs.truncate(k);
                        push_recs(self, recs, None, true);
                        self.model = m;
                    } else if st == self.model.st {
                        // not applied (or an idempotent record, which the analysers treat as optional)
                    } else {
                        self.violate("fault-wrong-state", format!("{} failed with {} and left state {:?}, neither before {:?} nor after {:?}", op.short(), norm_err(&e), st, self.model.st, after.st));
                        self.abort("model out of step");
                    }
                } else {
                    let mine = self.or.model_eq;
                    self.diverge(mine, &format!("accepted-op-failed:{}", op_kind(op)), format!("{} is legal but returned {}", op.short(), norm_err(&e)));
                    self.abort("model out of step");
                }
            }
        }
        if self.rl.is_some() && self.rl().stat().closed_chunks.len() > chunks_before {
            self.probe("rotation");
        }
        // C15, second clause: judged for inserting writes during which the boundary cannot have
        // moved (no worker step inside the call), so "the boundary in force at that write" is exact
        if self.or.cache_acct && self.rl.is_some() && matches!(op, Op::Append(_)) && !expect_err && self.aborted.is_none() {
            if core::worker_steps() == wsteps_before {
                self.probe("overflow_clause_judged");
                self.check_cache_overflow("after append");
            } else {
                self.probe("overflow_clause_skipped_worker_ran");
            }
        }
    }

    fn do_flush(&mut self, wait: bool, with_cb: bool) -> Option<bool> {
        let upto = self.rl().stat().open_chunk.global_end;
        let fid = self.next_fid;
        self.next_fid += 1;
        let nrec = self.records.len();
        let t_req = core::trace_len();
        core::ev(HEv::FlushReq { fid, nrec: nrec as u32 });
        let rl = self.rl.as_mut().unwrap();
        let cb = if with_cb { Some(Cb::new(fid)) } else { None };
        let r = catch_unwind(AssertUnwindSafe(|| rl.flush(cb)));
        let send_ok = matches!(r, Ok(Ok(())));
        if let Err(p) = &r {
            self.violate(format!("panic:{}:flush", panic_class(&last_panic_loc(), &panic_msg(&**p))), panic_msg(&**p));
            self.abort("panic in flush");
        }
        if let Ok(Err(e)) = &r {
            self.caller_errors += 1;
            if !self.faulty && !self.worker_dead_seen {
                let mine = self.or.liveness || self.or.reopen_ok;
                self.diverge(mine, "flush-call-failed", format!("flush returned {} in a fault-free run", norm_err(e)));
            }
        }
        self.flushes.push(FlushInfo { fid, nrec, upto, t_req, generation: self.generation, waited: wait && with_cb, send_ok, with_cb });
        if wait && with_cb && send_ok {
            let a = core::wait_ack(fid);
            match a {
                Some(true) => self.probe("flush_acked"),
                Some(false) => self.probe("flush_acked_err"),
                None => {
                    self.probe("flush_stalled");
                    if !self.faulty {
                        let mine = self.or.liveness || self.or.reopen_ok;
                        let wa = core::workers_alive();
                        self.diverge(
                            mine,
                            if wa.is_empty() { "flush-never-acked:worker-dead" } else { "flush-never-acked:worker-idle" },
                            format!("flush #{fid} was never acknowledged although no fault was injected (live workers: {wa:?})"),
                        );
                        self.worker_dead_seen = true;
                    }
                }
            }
            return a;
        }
        None
    }

    fn quiescent_point(&mut self) {
        let rl = self.rl();
        let st = rl.stat();
        let mut chunks: Vec<(u64, u64, u64)> = st.closed_chunks.iter().map(|c| (c.global_start, c.global_end, c.records_count)).collect();
        chunks.push((st.open_chunk.global_start, st.open_chunk.global_end, st.open_chunk.records_count));
        let index = rl.verif_index().into_iter().map(|(i, id, c, s)| (i, id, c.offset(), s.offset().0, *s.size())).collect();
        let q = QuiescentPoint { t: core::trace_len(), nrec: self.records.len(), generation: self.generation, on_disk_size: rl.on_disk_size(), stat_chunks: chunks, index, cfg: self.cfg.clone() };
        self.quiescent.push(q);
    }

    fn do_readers(&mut self, n: u8, rounds: u8) {
        let rl = Arc::new(self.rl.take().unwrap());
        let want = Arc::new(self.model.all());
        let errs: Arc<Mutex<Vec<(String, String)>>> = Arc::new(Mutex::new(vec![]));
        let fam = self.family_lower;
        let mut hs = vec![];
        for k in 0..n {
            let rl2 = rl.clone();
            let want2 = want.clone();
            let errs2 = errs.clone();
            let use_dump = k >= 1; // one range reader, the others iterate snapshots concurrently
            hs.push(core::spawn_sim_thread(format!("R{k}"), move || {
                for _ in 0..rounds {
                    let got: Vec<Result<(LogId, String), String>> = if use_dump {
                        let mut d = rl2.dump_data();
                        d.iter().map(|r| r.map_err(|e| norm_err(&e))).collect()
                    } else {
                        rl2.read(0, u64::MAX).map(|r| r.map_err(|e| norm_err(&e))).collect()
                    };
                    let mut bad = None;
                    if got.len() != want2.len() {
                        bad = Some(("read-mismatch:count".to_string(), format!("reader got {} entries want {}", got.len(), want2.len())));
                    } else {
                        for (g, w) in got.iter().zip(want2.iter()) {
                            match g {
                                Err(e) => {
                                    let f = if fam { "lower-term-family" } else { "monotone-family" };
                                    bad = Some((format!("read-err:{f}:{e}"), format!("concurrent reader: {:?} unreadable: {e}", w.0)));
                                    break;
                                }
                                Ok(g) if g != w => {
                                    bad = Some(("read-mismatch:payload".to_string(), format!("concurrent reader: got {:?} want {:?}", g.0, w.0)));
                                    break;
                                }
                                _ => {}
                            }
                        }
                    }
                    if let Some(b) = bad {
                        errs2.lock().unwrap().push(b);
                        break;
                    }
                    core::sim().yield_point("reader_round");
                }
                drop(rl2);
            }));
        }
        // wait (in simulated time) for the readers
        core::sim().progress();
        loop {
            let alive = (0..n).any(|k| core::thread_alive(&format!("R{k}")));
            if !alive {
                break;
            }
            if !core::sim().blocked("wait_readers") {
                break;
            }
        }
        for h in hs {
            let _ = core::bypass(|| h.join());
        }
        self.probe("reader_threads");
        let rl = Arc::try_unwrap(rl).ok().expect("readers still hold the store");
        self.rl = Some(rl);
        let errs = errs.lock().unwrap().clone();
        for (class, detail) in errs {
            let mine = self.or.reads_ok || self.or.model_eq;
            self.diverge(mine, &class, detail);
        }
    }

    fn run_op(&mut self, i: usize, op: &Op) {
        match op {
            o if o.is_write() => self.do_write(i, o),
            Op::Flush { wait } => {
                self.do_flush(*wait, true);
            }
            Op::FlushNone => {
                self.do_flush(false, false);
            }
            Op::Read(a, b) => {
                let rl = self.rl();
                let got = catch_unwind(AssertUnwindSafe(|| rl.read(*a, *b).map(|r| r.map_err(|e| norm_err(&e))).collect::<Vec<_>>()));
                match got {
                    Err(p) => {
                        self.violate(format!("panic:{}:read", panic_class(&last_panic_loc(), &panic_msg(&*p))), format!("read({a},{b}) panicked at {}: {}", last_panic_loc(), panic_msg(&*p)));
                    }
                    Ok(got) => {
                        let want = self.model.read(*a, *b);
                        if let Some((class, detail)) = self.cmp_read(&got, &want) {
                            let mine = self.or.model_eq || (self.or.reads_ok);
                            self.diverge(mine, &class, format!("read({a},{b}): {detail}"));
                        }
                    }
                }
            }
            Op::Stat => self.check_stat(self.or.model_eq),
            Op::DumpIter => {
                let rl = self.rl();
                let got = catch_unwind(AssertUnwindSafe(|| {
                    let mut d = rl.dump_data();
                    d.iter().map(|r| r.map_err(|e| norm_err(&e))).collect::<Vec<_>>()
                }));
                match got {
                    Err(p) => self.violate(format!("panic:{}:dump_iter", panic_class(&last_panic_loc(), &panic_msg(&*p))), panic_msg(&*p)),
                    Ok(got) => {
                        let want = self.model.all();
                        if let Some((class, detail)) = self.cmp_read(&got, &want) {
                            let mine = self.or.model_eq || self.or.reads_ok;
                            self.diverge(mine, &class, format!("dump_data().iter(): {detail}"));
                        }
                    }
                }
            }
            Op::Snapshot => {
                let rl = self.rl();
                if let Ok(d) = catch_unwind(AssertUnwindSafe(|| rl.dump_data())) {
                    self.held = Some((d, self.model.all()));
                    self.probe("snapshot_taken");
                }
            }
            Op::SnapshotIter => {
                if let Some((mut d, want)) = self.held.take() {
                    self.probe("snapshot_iterated_later");
                    let got = catch_unwind(AssertUnwindSafe(|| d.iter().map(|r| r.map_err(|e| norm_err(&e))).collect::<Vec<_>>()));
                    match got {
                        Err(p) => self.violate(format!("panic:{}:snapshot_iter", panic_class(&last_panic_loc(), &panic_msg(&*p))), panic_msg(&*p)),
                        Ok(got) => {
                            if let Some((class, detail)) = self.cmp_read(&got, &want) {
                                let mine = self.or.model_eq || self.or.reads_ok;
                                // an unreadable entry keeps its family-tagged class (the known eviction finding
                                // is a property of the history, not of how the entry is read)
                                let class = if class.starts_with("read-err:lower-term-family") { class } else { format!("snapshot-later:{class}") };
                                self.diverge(mine, &class, format!("a dump_data() snapshot iterated after later operations: {detail}"));
                            }
                        }
                    }
                }
            }
            Op::Dump => {
                let rl = self.rl();
                let got = catch_unwind(AssertUnwindSafe(|| rl.dump().write_to_string()));
                match got {
                    Err(p) => self.violate(format!("panic:{}:dump", panic_class(&last_panic_loc(), &panic_msg(&*p))), panic_msg(&*p)),
                    Ok(Err(e)) if !self.faulty => {
                        let mine = self.or.model_eq;
                        self.diverge(mine, "dump-failed", format!("dump().write_to_string(): {}", norm_err(&e)));
                    }
                    _ => {}
                }
            }
            Op::Restart(cfg) => self.do_restart(cfg),
            Op::RaceRestart(cfg) => self.do_race_restart(cfg, false),
            Op::PanicRestart(cfg) => self.do_race_restart(cfg, true),
            Op::WaitIdle => {
                if !self.faulty && !self.worker_dead_seen && !core::workers_alive().is_empty() {
                    self.probe("wait_idle");
                    let rl = self.rl();
                    rl.wait_worker_idle();
                    rl.drain_cache_evictable();
                    if self.or.cache_acct {
                        let st = rl.stat();
                        if let Some(b) = st.payload_cache_last_evictable {
                            let res = rl.verif_cache_resident();
                            if let Some(r) = res.iter().find(|r| r.0 <= b).cloned() {
                                self.violate("cache-acct:evictable-after-drain", format!("after wait_worker_idle + drain_cache_evictable, resident {:?} <= boundary {:?}", r.0, b));
                            }
                        }
                    }
                }
            }
            Op::Quiesce => {
                core::drain_idle();
                self.probe("quiesce");
            }
            Op::Readers { n, rounds } => self.do_readers(*n, *rounds),
            Op::Contenders { .. } => {}
            _ => unreachable!(),
        }
    }

    fn do_restart(&mut self, cfg: &Cfg) {
        // every write flushed and acknowledged
        let acked = self.do_flush(true, true);
        if acked != Some(true) {
            // under faults nothing is promised about unacknowledged data: the run is not judged further
            self.abort("restart: final flush not acknowledged");
        }
        core::drain_idle();
        if self.aborted.is_some() {
            return;
        }
        self.quiescent_point();
        let before_state = real_state(self.rl());
        let before_read = self.full_read().unwrap_or_default();
        let rl = self.rl();
        let before_dump = catch_unwind(AssertUnwindSafe(|| rl.dump().write_to_string())).ok().and_then(|r| r.ok());
        self.do_drop();
        // quiesce the old worker (C14 is about not doing that)
        if !core::drain_threads() {
            eprintln!("HARNESS-ERROR: old worker did not exit after drop");
            std::process::exit(2);
        }
        self.probe("restart");
        let ok = self.do_open(cfg, false);
        if !ok {
            let err = self.opens.last().unwrap().err.clone();
            if self.faulty {
                self.abort(format!("reopen failed under faults: {err}"));
            } else {
                let mine = self.or.restart_eq;
                self.diverge(mine, &format!("clean-reopen-failed:{}", err.split(':').take(2).collect::<Vec<_>>().join(":")), format!("open after flush+ack+drop failed: {err}"));
                self.abort("reopen failed");
            }
            return;
        }
        if acked == Some(true) && self.or.restart_eq {
            let st = real_state(self.rl());
            if st != before_state {
                self.violate("restart:state-differs", format!("before close {:?}, after open {:?}", before_state, st));
            }
            let rd = self.full_read().unwrap_or_default();
            if rd != before_read {
                let class = if rd.iter().chain(before_read.iter()).any(|r| r.is_err()) {
                    let fam = if self.family_lower { "lower-term-family" } else { "monotone-family" };
                    format!("read-err:{fam}:{}", rd.iter().chain(before_read.iter()).find_map(|r| r.as_ref().err()).unwrap())
                } else {
                    "restart:entries-differ".to_string()
                };
                self.violate(class, format!("full read before close has {} entries, after open {}", before_read.len(), rd.len()));
            }
            let rl = self.rl();
            let after_dump = catch_unwind(AssertUnwindSafe(|| rl.dump().write_to_string())).ok().and_then(|r| r.ok());
            if before_dump.is_some() && after_dump.is_some() && before_dump != after_dump {
                self.violate("restart:dump-differs", "journal dump before close and after open differ (a clean restart must not rewrite the journal)".to_string());
            }
        }
    }

    fn do_race_restart(&mut self, cfg: &Cfg, by_panic: bool) {
        let acked = self.do_flush(true, true);
        if acked != Some(true) || self.aborted.is_some() {
            self.abort("race-restart: final flush not acknowledged");
            return;
        }
        let before_state = real_state(self.rl());
        let before_read = self.full_read().unwrap_or_default();
        if by_panic {
            self.do_drop_unwinding();
            self.probe("dropped_by_unwinding");
        } else {
            self.do_drop();
        }
        let old_alive = !core::workers_alive().is_empty();
        if old_alive {
            self.probe("old_worker_alive_at_reopen");
        }
        self.probe("race_restart");
        let ok = self.do_open(cfg, true);
        if !ok {
            let err = self.opens.last().unwrap().err.clone();
            let mine = self.or.reopen_ok;
            self.diverge(mine, &format!("reopen-refused:{}", err.split(':').take(2).collect::<Vec<_>>().join(":")), format!("open right after flush-ack + drop failed: {err}"));
            self.abort("reopen failed");
            // let the old worker finish so that the run can end
            return;
        }
        if self.or.reopen_ok {
            let st = real_state(self.rl());
            if st != before_state {
                self.violate("reopen:state-differs", format!("acknowledged {:?}, reopened {:?}", before_state, st));
            }
            let rd = self.full_read().unwrap_or_default();
            if rd != before_read && !rd.iter().any(|r| r.is_err()) {
                self.violate("reopen:entries-differ", format!("acknowledged {} entries, reopened {}", before_read.len(), rd.len()));
            }
        }
    }
}

pub fn op_kind(op: &Op) -> &'static str {
    match op {
        Op::Vote(_) => "save_vote",
        Op::Append(_) => "append",
        Op::Truncate(_) => "truncate",
        Op::Purge(_) => "purge",
        Op::Commit(_) => "commit",
        Op::UserData(_) => "save_user_data",
        Op::UpdateLast(_) => "update_state",
        Op::Flush { .. } | Op::FlushNone => "flush",
        Op::Read(..) => "read",
        _ => "other",
    }
}

pub fn chooser_of(s: &Sched) -> Chooser {
    match s {
        Sched::Default => Chooser::Default,
        Sched::Prng { seed, policy } => Chooser::Prng { rng: Rng::new(*seed), policy: *policy, starve_left: 0 },
        Sched::Tape(t) => Chooser::Tape { tape: t.clone(), pos: 0 },
    }
}

pub fn fresh_dir(path: &str) {
    core::bypass(|| {
        let _ = std::fs::remove_dir_all(path);
        std::fs::create_dir_all(path).expect("create run dir");
    });
}

/// Run one spec from an empty directory.
pub fn run_spec(spec: &Spec, or: &Oracles, root: &str) -> RunOut {
    fresh_dir(root);
    run_spec_in(spec, or, root, Model::default())
}

/// Run one spec in an existing directory (e.g. a recovered crash image) whose contents
/// correspond to `model`.
pub fn run_spec_in(spec: &Spec, or: &Oracles, root: &str, model: Model) -> RunOut {
    run_spec_inner(spec, or, root, model, None)
}

/// Continue, inside the episode that is already running, on a store that is already open (the
/// very instance that performed a recovery): its ops, oracles and the end-of-run drain are those of
/// `run_spec_in`. The returned trace therefore starts with the recovery's own fs calls.
pub fn continue_on(rl: RaftLog<TT>, spec: &Spec, or: &Oracles, root: &str, model: Model) -> RunOut {
    run_spec_inner(spec, or, root, model, Some(rl))
}

fn run_spec_inner(spec: &Spec, or: &Oracles, root: &str, model: Model, existing: Option<RaftLog<TT>>) -> RunOut {
    let initial_model = model.clone();
    if existing.is_none() {
        core::begin(EpisodeCfg { root: root.to_string(), chooser: chooser_of(&spec.sched), faults: spec.faults.clone(), flush_batch: spec.flush_batch });
    }
    let mut ex = Exec {
        spec,
        or,
        root: root.to_string(),
        rl: None,
        cfg: spec.cfg.clone(),
        model,
        generation: 0,
        next_fid: 1,
        records: vec![],
        flushes: vec![],
        quiescent: vec![],
        opens: vec![],
        viol: vec![],
        aborted: None,
        probes: BTreeMap::new(),
        max_id_ever: None,
        family_lower: false,
        caller_errors: 0,
        // short transfers and EINTR are legal behaviours, not errors: no oracle is relaxed for them
        faulty: spec.has_real_faults(),
        cur_op: -1,
        aux: Rng::new(spec.run_seed ^ 0xA5A5_5A5A_1234_5678),
        worker_dead_seen: false,
        held: None,
    };
    let cfg0 = spec.cfg.clone();
    let mut ops_done = 0;
    let opened = match existing {
        Some(rl) => {
            ex.rl = Some(rl);
            ex.generation = 1;
            ex.opens.push(OpenInfo { generation: 1, t_begin: 0, t_end: core::trace_len(), ok: true, err: String::new(), cfg: cfg0.clone(), nrec: 0, raced: false });
            core::ev(HEv::StoreOpen { generation: 1, ok: true });
            true
        }
        None => ex.do_open(&cfg0, false),
    };
    if !opened {
        let err = ex.opens.last().unwrap().err.clone();
        if !ex.faulty {
            let mine = ex.or.model_eq || ex.or.restart_eq;
            ex.diverge(mine, &format!("initial-open-failed:{}", err.split(':').take(2).collect::<Vec<_>>().join(":")), err.clone());
        }
        ex.abort(format!("initial open failed: {err}"));
    } else {
        if ex.or.model_eq {
            ex.check_model_eq(true, "after initial open");
        }
        for (i, op) in spec.ops.iter().enumerate() {
            if ex.aborted.is_some() || ex.rl.is_none() {
                break;
            }
            ex.cur_op = i as i64;
            core::ev(HEv::OpStart(i as u32));
            core::sim().yield_point("op_boundary");
            ex.run_op(i, op);
            core::ev(HEv::OpEnd(i as u32));
            ops_done = i + 1;
            if ex.aborted.is_some() || ex.rl.is_none() {
                break;
            }
            // post-op oracles (atomic w.r.t. the op: no yield point in between except reads)
            if ex.or.cache_acct {
                ex.check_cache_acct("after op");
            }
            if ex.or.no_panic {
                // C16: the read paths must not panic in any reachable state (errors are fine here)
                if let Err(p) = ex.full_read() {
                    ex.violate(format!("panic:{}:read", panic_class(&last_panic_loc(), p.splitn(3, ':').nth(2).unwrap_or(""))), format!("read(0, MAX) after op #{i} {} panicked: {p}", op.short()));
                    ex.abort("panic in read");
                }
                let r = {
                    let rl = ex.rl();
                    catch_unwind(AssertUnwindSafe(|| {
                        let mut d = rl.dump_data();
                        d.iter().count()
                    }))
                };
                if let Err(p) = r {
                    ex.violate(format!("panic:{}:dump_iter", panic_class(&last_panic_loc(), &panic_msg(&*p))), format!("dump_data().iter() after op #{i} panicked: {}", panic_msg(&*p)));
                    ex.abort("panic in dump_iter");
                }
                let r = {
                    let rl = ex.rl();
                    catch_unwind(AssertUnwindSafe(|| {
                        let st = rl.stat();
                        // the Display paths format offsets and counters: they must not panic either
                        let _ = format!("{} {:#} {:?}", st, st, rl.config());
                        (st.closed_chunks.len(), rl.on_disk_size())
                    }))
                };
                if let Err(p) = r {
                    ex.violate(format!("panic:{}:stat", panic_class(&last_panic_loc(), &panic_msg(&*p))), format!("stat()/on_disk_size() after op #{i} panicked: {}", panic_msg(&*p)));
                    ex.abort("panic in stat");
                }
                if ex.aborted.is_some() {
                    break;
                }
            }
            if ex.or.model_eq || ex.or.reads_ok || ex.or.reject_clean || ex.or.restart_eq || ex.or.reopen_ok {
                let mine = ex.or.model_eq;
                ex.check_model_eq(mine, &format!("after op #{i} {}", op.short()));
            } else if !ex.faulty {
                // keep the model honest everywhere, cheaply: state only
                let st = real_state(ex.rl());
                if st != ex.model.st {
                    ex.abort(format!("state-mismatch after op #{i}"));
                }
            }
        }
    }
    ex.cur_op = -2;
    // end of run: final quiescent point, then drop and let every worker exit
    if ex.rl.is_some() && ex.aborted.is_none() && !ex.faulty {
        core::drain_idle();
        if ex.flushes.last().map(|f| f.nrec == ex.records.len() && f.waited).unwrap_or(false) {
            ex.quiescent_point();
        }
    }
    ex.do_drop();
    if !core::drain_threads() {
        eprintln!("HARNESS-ERROR: threads still alive at the end of the run");
        std::process::exit(2);
    }
    let ep = core::end();
    RunOut {
        ep,
        violations: ex.viol,
        aborted: ex.aborted,
        records: ex.records,
        flushes: ex.flushes,
        quiescent: ex.quiescent,
        opens: ex.opens,
        probes: ex.probes,
        family_lower: ex.family_lower,
        caller_errors: ex.caller_errors,
        ops_done,
        model: ex.model,
        root: root.to_string(),
        initial_model,
    }
}

// ------------------------------------------------------------------ C13: contenders (S3)

/// Contender threads (standing in for processes: flock is per open file description) race to
/// open, hold, write to, and drop the same directory. All invariants are checked on the trace.
pub fn run_contenders(spec: &Spec, root: &str) -> RunOut {
    use crate::ops::CAction;
    fresh_dir(root);
    core::begin(EpisodeCfg { root: root.to_string(), chooser: chooser_of(&spec.sched), faults: vec![], flush_batch: spec.flush_batch });
    let scripts: Vec<Vec<CAction>> = match spec.ops.first() {
        Some(Op::Contenders { scripts }) => scripts.clone(),
        _ => vec![],
    };
    let appended: Arc<Mutex<Vec<(LogId, String)>>> = Arc::new(Mutex::new(vec![]));
    let fid_ctr = Arc::new(std::sync::atomic::AtomicU32::new(1));
    let cfg = spec.cfg.clone();
    let mut hs = vec![];
    for (k, script) in scripts.iter().enumerate() {
        let script = script.clone();
        let root = root.to_string();
        let cfg = cfg.clone();
        let appended = appended.clone();
        let fid_ctr = fid_ctr.clone();
        let who = k as u8;
        hs.push(core::spawn_sim_thread(format!("C{k}"), move || {
            let note = |what: String| core::ev(HEv::Contender { who, what });
            for a in script {
                for _ in 0..a.pause {
                    core::sim().yield_point("contender_pause");
                }
                note("attempt".into());
                if a.dump {
                    let r = catch_unwind(AssertUnwindSafe(|| raft_log::Dump::<TT>::new(cfg.to_config(&root))));
                    match r {
                        Ok(Ok(d)) => {
                            note("ok".into());
                            let _ = catch_unwind(AssertUnwindSafe(|| d.write_to_string()));
                            for _ in 0..a.hold {
                                core::sim().yield_point("contender_hold");
                            }
                            note("dropbegin".into());
                            drop(d);
                            note("dropend".into());
                        }
                        Ok(Err(e)) => note(format!("err:{}", norm_err(&e))),
                        Err(p) => note(format!("panic:{}", panic_msg(&*p))),
                    }
                } else {
                    let r = catch_unwind(AssertUnwindSafe(|| RaftLog::<TT>::open(cfg.to_config(&root))));
                    match r {
                        Ok(Ok(mut rl)) => {
                            note("ok".into());
                            // what the owner sees must be what previous owners made durable
                            let seen: Vec<(LogId, String)> = rl.read(0, u64::MAX).filter_map(|r| r.ok()).collect();
                            let want = appended.lock().unwrap().clone();
                            if seen != want {
                                note(format!("state-mismatch: owner sees {} entries, previous owners flushed {}", seen.len(), want.len()));
                            }
                            if a.write {
                                let next = rl.log_state().last().map(|l| l.1 + 1).unwrap_or(0);
                                let id = (1u64, next);
                                let payload = format!("c{who}:{next}");
                                if rl.append([(id, payload.clone())]).is_ok() {
                                    let fid = fid_ctr.fetch_add(1, std::sync::atomic::Ordering::Relaxed);
                                    if rl.flush(Some(Cb::new(fid))).is_ok() && core::wait_ack(fid) == Some(true) {
                                        appended.lock().unwrap().push((id, payload));
                                    } else {
                                        note("flush-not-acked".into());
                                    }
                                }
                            }
                            for _ in 0..a.hold {
                                core::sim().yield_point("contender_hold");
                            }
                            note("dropbegin".into());
                            drop(rl);
                            note("dropend".into());
                        }
                        Ok(Err(e)) => note(format!("err:{}", norm_err(&e))),
                        Err(p) => note(format!("panic:{}", panic_msg(&*p))),
                    }
                }
            }
        }));
    }
    // wait for all contenders (and the workers they spawned)
    let mut idle_rounds = 0u32;
    loop {
        let alive = core::lock().threads.iter().skip(1).any(|t| t.alive);
        if !alive {
            break;
        }
        core::sim().progress();
        if !core::sim().blocked("wait_contenders") {
            idle_rounds += 1;
            if idle_rounds > 100_000 {
                eprintln!("HARNESS-ERROR: contenders never finish");
                std::process::exit(2);
            }
        }
    }
    for h in hs {
        let _ = core::bypass(|| h.join());
    }
    let ep = core::end();
    // ---- invariants over the trace
    let mut viol: Vec<Violation> = vec![];
    let mut push = |class: String, detail: String| {
        if !viol.iter().any(|v: &Violation| v.class == class) {
            viol.push(Violation { prop: "C13".into(), class, detail, op_index: -1 });
        }
    };
    let mut owner: Option<u8> = None;
    let mut lock_holder: Option<u8> = None; // by thread index
    let mut attempt_at: BTreeMap<u8, usize> = BTreeMap::new();
    let mut probes: BTreeMap<String, u64> = BTreeMap::new();
    let tid_of = |who: u8| ep.thread_names.iter().position(|n| *n == format!("C{who}")).unwrap_or(255) as u8;
    let mut lock_free_since: usize = 0;
    // per contender: 0 idle, 1 attempting, 2 owner, 3 dropping
    let mut phase: BTreeMap<u8, u8> = BTreeMap::new();
    for (pos, e) in ep.trace.iter().enumerate() {
        match e {
            Ev::Fs(f) if f.file == crate::shadow::LOCK => match f.op {
                crate::core::FsOp::Flock if f.res >= 0 => lock_holder = Some(f.tid),
                crate::core::FsOp::Flock => {
                    *probes.entry("lock_refusals".into()).or_default() += 1;
                    match lock_holder {
                        None => push("lock-refused-while-free".into(), format!("flock failed at trace position {pos} although nobody held the lock (free since {lock_free_since})")),
                        Some(h) => {
                            // the holder must be an owner, or a contender inside its own open attempt / drop
                            let who = ep.thread_names.get(h as usize).and_then(|n| n.strip_prefix('C')).and_then(|n| n.parse::<u8>().ok());
                            let busy = who.map(|w| phase.get(&w).copied().unwrap_or(0) != 0).unwrap_or(false);
                            if !busy {
                                push("lock-held-by-nobody".into(), format!("flock failed at trace position {pos}: the lock is still held through a descriptor of thread {:?}, which neither owns the directory nor is opening or dropping it", ep.thread_names.get(h as usize)));
                            }
                        }
                    }
                }
                crate::core::FsOp::Funlock | crate::core::FsOp::Close if lock_holder == Some(f.tid) => {
                    lock_holder = None;
                    lock_free_since = pos;
                }
                _ => {}
            },
            Ev::H(HEv::Contender { who, what }) => {
                match what.as_str() {
                    "attempt" => {
                        attempt_at.insert(*who, pos);
                        phase.insert(*who, 1);
                    }
                    "ok" => {
                        phase.insert(*who, 2);
                        *probes.entry("opens_ok".into()).or_default() += 1;
                        if let Some(o) = owner {
                            push("two-owners".into(), format!("contender C{who} opened the directory while C{o} still owned it"));
                        }
                        owner = Some(*who);
                    }
                    "dropbegin" => {
                        phase.insert(*who, 3);
                        if owner == Some(*who) {
                            owner = None;
                        }
                    }
                    "dropend" => {
                        phase.insert(*who, 0);
                    }
                    w if w.starts_with("err:") => {
                        phase.insert(*who, 0);
                        *probes.entry("opens_refused".into()).or_default() += 1;
                        let t = tid_of(*who);
                        let from = attempt_at.get(who).copied().unwrap_or(0);
                        // a refused open must not have modified any chunk file
                        for e2 in &ep.trace[from..pos] {
                            if let Ev::Fs(f) = e2 {
                                if f.tid == t && f.file != crate::shadow::LOCK && matches!(f.op, crate::core::FsOp::Write | crate::core::FsOp::Ftruncate | crate::core::FsOp::Unlink | crate::core::FsOp::Create) {
                                    push(format!("refused-open-mutated:{:?}", f.op), format!("contender C{who}'s open failed ({w}) after it did {:?} on {}", f.op, f.file));
                                }
                            }
                        }
                        if !w.contains("WouldBlock") {
                            push(format!("open-failed:{}", w.trim_start_matches("err:").split(':').take(2).collect::<Vec<_>>().join(":")), format!("contender C{who}: open failed with {w} (not a lock refusal) in a fault-free run"));
                        } else {
                            // refused although the directory was free for the whole attempt?
                            let held_during = ep.trace[from..pos].iter().any(|e2| matches!(e2, Ev::Fs(f) if f.file == crate::shadow::LOCK && f.op == crate::core::FsOp::Flock && f.res < 0 && f.tid == t));
                            if !held_during {
                                push("refused-without-lock-attempt".into(), format!("contender C{who}: open refused with WouldBlock but it never failed a flock"));
                            }
                        }
                    }
                    w if w.starts_with("panic:") => {
                        phase.insert(*who, 0);
                        push("open-panic".into(), format!("contender C{who}: {w}"))
                    }
                    w if w.starts_with("state-mismatch") => push("owner-sees-wrong-state".into(), format!("contender C{who}: {w}")),
                    w if w.starts_with("flush-not-acked") => push("owner-flush-not-acked".into(), format!("contender C{who}: its flush was not acknowledged")),
                    _ => {}
                }
            }
            _ => {}
        }
    }
    if probes.get("opens_ok").copied().unwrap_or(0) > 0 && probes.get("opens_refused").copied().unwrap_or(0) > 0 {
        probes.insert("runs_with_both_ok_and_refused".into(), 1);
    }
    RunOut {
        ep,
        violations: viol,
        aborted: None,
        records: vec![],
        flushes: vec![],
        quiescent: vec![],
        opens: vec![],
        probes,
        family_lower: false,
        caller_errors: 0,
        ops_done: 1,
        model: Model::default(),
        root: root.to_string(),
        initial_model: Model::default(),
    }
}
