//! Post-hoc crash experiments (C03, C05, parts of C08/C10): crash images are synthesised from
//! trace prefixes and handed to the real `RaftLog::open`, itself running under the simulator so
//! that its own fs calls are traced (second-level crash during recovery).

use std::collections::BTreeMap;
use std::panic::{catch_unwind, AssertUnwindSafe};

use raft_log::RaftLog;

use crate::core::{self, Chooser, EpisodeCfg, Ev, FsOp, HEv};
use crate::exec::{last_panic_loc, panic_msg, RunOut, Violation};
use crate::model::{real_state, LogId, MState, Model, TT};
use crate::ops::Cfg;
use crate::rng::Rng;
use crate::shadow::{boundaries, make_image, parse_chunk_name, parse_records, CrashKind, CrashSpec, Disk};

#[derive(Clone, Debug)]
pub enum Outcome {
    Opened { state: MState, entries: Vec<(LogId, String)>, read_err: Option<String> },
    Refused(String),
    Panicked { loc: String, msg: String },
}

pub struct ImgResult {
    pub outcome: Outcome,
    /// fs trace of the recovery itself
    pub trace: Vec<Ev>,
    /// directory content after the open attempt (and drop)
    pub after: Disk,
}

fn norm_open_err(e: &std::io::Error) -> String {
    let msg = e.to_string();
    let head: String = msg.chars().take_while(|c| !c.is_ascii_digit() && *c != '\'' && *c != '/').collect();
    let head = head.trim().trim_end_matches(':').trim();
    let head = if head.len() > 60 { &head[..60] } else { head };
    format!("{:?}:{}", e.kind(), head)
}

/// Open an image with the real code (Default schedule), read everything back, drop, drain.
pub fn eval_image(img: &Disk, cfg: &Cfg, dir: &str, keep_open: bool) -> (ImgResult, Option<RaftLog<TT>>) {
    img.write_to(dir);
    core::begin(EpisodeCfg { root: dir.to_string(), chooser: Chooser::Default, faults: vec![], flush_batch: 1024 });
    let config = cfg.to_config(dir);
    let res = catch_unwind(AssertUnwindSafe(|| RaftLog::<TT>::open(config)));
    let mut kept = None;
    let outcome = match res {
        Ok(Ok(rl)) => {
            let state = real_state(&rl);
            let rd = catch_unwind(AssertUnwindSafe(|| rl.read(0, u64::MAX).collect::<Vec<_>>()));
            let mut entries = vec![];
            let mut read_err = None;
            match rd {
                Ok(v) => {
                    for r in v {
                        match r {
                            Ok(e) => entries.push(e),
                            Err(e) => {
                                read_err = Some(norm_open_err(&e));
                                break;
                            }
                        }
                    }
                }
                Err(p) => read_err = Some(format!("panic:{}", panic_msg(&*p))),
            }
            if keep_open {
                kept = Some(rl);
            } else {
                drop(rl);
            }
            Outcome::Opened { state, entries, read_err }
        }
        Ok(Err(e)) => Outcome::Refused(norm_open_err(&e)),
        Err(p) => Outcome::Panicked { loc: last_panic_loc(), msg: panic_msg(&*p).chars().take(100).collect() },
    };
    if kept.is_some() {
        // caller continues inside this episode and must end it
        return (ImgResult { outcome, trace: vec![], after: Disk::default() }, kept);
    }
    if !core::drain_threads() {
        eprintln!("HARNESS-ERROR: worker of an image store did not exit");
        std::process::exit(2);
    }
    let ep = core::end();
    let after = Disk::read_from(dir);
    (ImgResult { outcome, trace: ep.trace, after }, None)
}

/// Structural description of an image, computed independently of the store.
#[derive(Clone, Debug, Default)]
pub struct ImageShape {
    pub nchunks: usize,
    /// a non-newest chunk whose complete records end before its successor's id
    pub short_non_newest: Option<(u64, u64, u64)>, // (chunk id, recovered end, successor id)
    /// number of complete records in the newest chunk
    pub newest_complete: usize,
    pub newest_has_tail: bool,
    pub newest_id: u64,
    /// a non-newest chunk that has bytes after its complete records
    pub non_newest_tail: bool,
}

pub fn image_shape(img: &Disk) -> ImageShape {
    let chunks = img.chunks();
    let mut sh = ImageShape { nchunks: chunks.len(), ..Default::default() };
    for (i, (off, _n, f)) in chunks.iter().enumerate() {
        let p = parse_records(&f.data);
        let end = p.recs.last().map(|r| r.1).unwrap_or(0);
        let newest = i + 1 == chunks.len();
        if newest {
            sh.newest_complete = p.recs.len();
            sh.newest_has_tail = end < f.data.len();
            sh.newest_id = *off;
        } else {
            let succ = chunks[i + 1].0;
            if off + end as u64 != succ && sh.short_non_newest.is_none() {
                sh.short_non_newest = Some((*off, off + end as u64, succ));
            }
            if end < f.data.len() {
                sh.non_newest_tail = true;
            }
        }
    }
    sh
}

/// Facts about the run the crash oracles need.
pub struct RunFacts {
    /// trace positions of Ack(ok=true) with the record count the acked flush covers
    pub acks: Vec<(usize, usize, usize)>, // (trace pos of ack, nrec covered, trace pos of the flush request)
    /// trace position of the creation of each chunk file
    pub created: BTreeMap<String, usize>,
    pub rec_issue: Vec<usize>,
    pub prefix: Vec<Model>,
    pub uncertain: bool,
    pub family_lower: bool,
}

pub fn run_facts(out: &RunOut) -> RunFacts {
    let mut acks = vec![];
    let mut created = BTreeMap::new();
    for (pos, e) in out.ep.trace.iter().enumerate() {
        match e {
            Ev::H(HEv::Ack { fid, ok: true }) => {
                if let Some(f) = out.flushes.iter().find(|f| f.fid == *fid) {
                    acks.push((pos, f.nrec, f.t_req));
                }
            }
            Ev::Fs(f) if f.op == FsOp::Create && f.res >= 0 => {
                created.insert(f.file.clone(), pos);
            }
            _ => {}
        }
    }
    RunFacts { acks, created, rec_issue: out.records.iter().map(|r| r.t_issue).collect(), prefix: out.prefix_models(), uncertain: out.caller_errors > 0, family_lower: out.family_lower }
}

impl RunFacts {
    /// (m, n_k): acknowledged record count and issued record count at crash point k.
    pub fn bounds(&self, k: usize) -> (usize, usize) {
        let m = self.acks.iter().filter(|a| a.0 < k).map(|a| a.1).max().unwrap_or(0);
        let n = self.rec_issue.partition_point(|t| *t < k);
        (m, n.max(m))
    }
    /// Was a flush that was requested after `t_after` acknowledged before k?
    pub fn acked_flush_after(&self, t_after: usize, k: usize) -> bool {
        self.acks.iter().any(|a| a.0 < k && a.2 > t_after)
    }
}

/// Which model prefix (if any) does a recovered (state, entries) correspond to, within [lo, hi]?
pub fn match_prefix(prefix: &[Model], lo: usize, hi: usize, state: &MState, entries: &[(LogId, String)]) -> Option<usize> {
    for j in (lo..=hi.min(prefix.len() - 1)).rev() {
        let m = &prefix[j];
        if &m.st == state && m.entries.len() == entries.len() && m.entries.values().zip(entries.iter()).all(|(a, b)| a == b) {
            return Some(j);
        }
    }
    None
}

/// Enumerate crash experiments for one run.
pub fn enumerate(initial: &Disk, trace: &[Ev], thorough: bool, rng: &mut Rng, budget_points: usize) -> Vec<CrashSpec> {
    // crash points: after every mutating fs event (and before the first)
    let mut points: Vec<usize> = vec![];
    for (i, e) in trace.iter().enumerate() {
        if let Ev::Fs(f) = e {
            if f.file == crate::shadow::LOCK {
                continue;
            }
            if matches!(f.op, FsOp::Create | FsOp::Write | FsOp::Fdatasync | FsOp::Fsync | FsOp::Ftruncate | FsOp::Unlink) {
                points.push(i + 1);
            }
        }
    }
    if points.is_empty() {
        return vec![];
    }
    let chosen: Vec<usize> = if thorough || points.len() <= budget_points {
        points.clone()
    } else {
        // a third right after acknowledgements (everything acknowledged must survive any power
        // loss there), a third in the windows around create / unlink / ftruncate, a third uniform
        let mut hot: Vec<usize> = vec![];
        let mut after_ack: Vec<usize> = vec![];
        for (i, e) in trace.iter().enumerate() {
            match e {
                Ev::Fs(f) if matches!(f.op, FsOp::Create | FsOp::Unlink | FsOp::Ftruncate) && f.file != crate::shadow::LOCK => {
                    for d in 0..4 {
                        if points.contains(&(i + d)) {
                            hot.push(i + d);
                        }
                    }
                }
                Ev::H(HEv::Ack { ok: true, .. }) => {
                    // the last mutating event before the ack, and the next two after it
                    if let Some(p) = points.iter().rev().find(|p| **p <= i) {
                        after_ack.push(*p);
                    }
                    for p in points.iter().filter(|p| **p > i).take(2) {
                        after_ack.push(*p);
                    }
                }
                _ => {}
            }
        }
        let mut c = vec![];
        let mut tries = 0;
        while c.len() < budget_points && tries < budget_points * 20 {
            tries += 1;
            let r = rng.below(3);
            let p = if r == 0 && !after_ack.is_empty() {
                *rng.pick(&after_ack)
            } else if r == 1 && !hot.is_empty() {
                *rng.pick(&hot)
            } else {
                *rng.pick(&points)
            };
            if !c.contains(&p) {
                c.push(p);
            }
            if c.len() >= points.len() {
                break;
            }
        }
        c.sort();
        c
    };
    let mut specs = vec![];
    for k in chosen {
        specs.push(CrashSpec { k, partial: None, kind: CrashKind::Process, cuts: BTreeMap::new(), nested: None, after_continuation: None });
        // crash inside the next write
        if let Some(Ev::Fs(f)) = trace.get(k) {
            if f.op == FsOp::Write && f.res > 1 {
                let n = f.data.len();
                let mut parts: Vec<usize> = if thorough {
                    let mut v = vec![1, n / 2, n - 1];
                    // record boundaries inside this write +-1
                    for b in boundaries(&f.data) {
                        for d in [b.wrapping_sub(1), b, b + 1] {
                            if d > 0 && d < n {
                                v.push(d);
                            }
                        }
                    }
                    v
                } else {
                    vec![rng.range(1, n as u64 - 1) as usize]
                };
                parts.sort();
                parts.dedup();
                for p in parts {
                    if p > 0 && p < n {
                        specs.push(CrashSpec { k, partial: Some(p), kind: CrashKind::Process, cuts: BTreeMap::new(), nested: None, after_continuation: None });
                    }
                }
            }
        }
        // power loss
        let d = Disk::replay(initial, trace, k);
        let unsynced: Vec<(&String, usize, usize)> = d.files.iter().filter(|(_, f)| f.synced < f.data.len()).map(|(n, f)| (n, f.synced, f.data.len())).collect();
        if unsynced.is_empty() {
            continue;
        }
        // (a) everything unsynced lost
        let mut all = BTreeMap::new();
        for (n, s, _) in &unsynced {
            all.insert((*n).clone(), *s);
        }
        specs.push(CrashSpec { k, partial: None, kind: CrashKind::PowerCut, cuts: all.clone(), nested: None, after_continuation: None });
        // (b) per file cuts, the others keeping everything / losing everything
        for (n, s, l) in &unsynced {
            let f = &d.files[*n];
            let bs = boundaries(&f.data);
            let mut cuts: Vec<usize> = vec![*s];
            if thorough {
                cuts.push((*s + *l) / 2);
                for b in &bs {
                    for c in [b.wrapping_sub(1), *b, b + 1] {
                        if c >= *s && c < *l {
                            cuts.push(c);
                        }
                    }
                }
            } else {
                cuts.push(rng.range(*s as u64, *l as u64 - 1) as usize);
            }
            cuts.sort();
            cuts.dedup();
            for c in cuts {
                if !(thorough || unsynced.len() > 1) && c == *s {
                    continue;
                }
                let mut m = BTreeMap::new();
                m.insert((*n).clone(), c);
                specs.push(CrashSpec { k, partial: None, kind: CrashKind::PowerCut, cuts: m.clone(), nested: None, after_continuation: None });
                if thorough && unsynced.len() > 1 {
                    let mut m2 = all.clone();
                    m2.insert((*n).clone(), c);
                    specs.push(CrashSpec { k, partial: None, kind: CrashKind::PowerCut, cuts: m2, nested: None, after_continuation: None });
                }
            }
            // (c) zero-fill from a record boundary >= synced
            let zb: Vec<usize> = bs.iter().copied().filter(|b| *b >= *s && *b < *l).collect();
            let zs: Vec<usize> = if thorough { zb } else { zb.into_iter().take(1).collect() };
            for z in zs {
                let mut m = BTreeMap::new();
                m.insert((*n).clone(), z);
                specs.push(CrashSpec { k, partial: None, kind: CrashKind::PowerZero, cuts: m, nested: None, after_continuation: None });
            }
        }
    }
    specs
}

#[derive(Clone, Debug, Default)]
pub struct CrashStats {
    pub images: u64,
    pub opened: u64,
    pub refused: u64,
    pub panicked: u64,
    pub by_kind: BTreeMap<String, u64>,
    pub nested_images: u64,
    pub continuations: u64,
    pub shapes: std::collections::BTreeSet<u64>,
    pub probes: BTreeMap<String, u64>,
}

pub struct CrashViolation {
    pub v: Violation,
    pub crash: CrashSpec,
}

fn shape_hash(img: &Disk) -> u64 {
    let mut parts = vec![];
    for (off, _n, f) in img.chunks() {
        parts.push(off);
        parts.push(f.data.len() as u64);
        parts.push(f.synced as u64);
    }
    crate::rng::mix(&parts)
}

/// Classify a refused / panicked open by image structure and by where the crash fell.
pub fn classify_failure(what: &str, err: &str, img: &Disk, facts: &RunFacts, k: usize, level2: bool) -> String {
    let sh = image_shape(img);
    let mut window = "n/a".to_string();
    let shape = if let Some((id, _end, succ)) = sh.short_non_newest {
        // is the crash inside the rotation window of the successor chunk?
        let succ_name = crate::shadow::chunk_name(succ);
        let t_create = facts.created.get(&succ_name).copied();
        window = match t_create {
            Some(t) if !level2 && facts.acked_flush_after(t, k) => "after-acked-flush".into(),
            Some(_) => "in-rotation-window".into(),
            None => "successor-created-by-recovery".into(),
        };
        let _ = id;
        "non-newest-shorter-than-successor".to_string()
    } else if sh.nchunks > 0 && sh.newest_complete == 0 {
        let name = crate::shadow::chunk_name(sh.newest_id);
        let t_create = facts.created.get(&name).copied();
        window = match t_create {
            Some(t) if !level2 && facts.acked_flush_after(t, k) => "after-acked-flush".into(),
            Some(_) => "before-first-acked-flush".into(),
            None => "created-by-recovery".into(),
        };
        "newest-has-0-records".to_string()
    } else {
        "other".to_string()
    };
    let err_head: String = err.split(':').take(2).collect::<Vec<_>>().join(":");
    format!("{what}:{err_head}:{shape}:{window}")
}

pub struct CrashCheckCfg {
    pub thorough: bool,
    pub budget_points: usize,
    pub check_prefix: bool,       // C03
    pub check_recoverable: bool,  // C05
    pub nested: bool,             // C05: crash during recovery
    pub continuation: bool,       // C05: workload after recovery
    pub max_images: usize,
}

/// Evaluate crash experiments of one run. `only` restricts to one explicit experiment (replay).
pub fn check_run(
    prop: &str,
    out: &RunOut,
    cfg_at: &dyn Fn(usize) -> Cfg,
    cc: &CrashCheckCfg,
    only: Option<&CrashSpec>,
    rng: &mut Rng,
    img_dir: &str,
    stats: &mut CrashStats,
) -> Vec<CrashViolation> {
    let facts = run_facts(out);
    let initial = Disk::default();
    let trace = &out.ep.trace;
    let specs: Vec<CrashSpec> = match only {
        Some(c) => vec![c.clone()],
        None => {
            let mut s = enumerate(&initial, trace, cc.thorough, rng, cc.budget_points);
            if s.len() > cc.max_images {
                // deterministic thinning
                let step = s.len() as f64 / cc.max_images as f64;
                let mut t = vec![];
                let mut x = 0.0;
                while (x as usize) < s.len() && t.len() < cc.max_images {
                    t.push(s[x as usize].clone());
                    x += step;
                }
                s = t;
            }
            s
        }
    };
    let mut viols: Vec<CrashViolation> = vec![];
    let mut seen_classes: Vec<String> = vec![];
    let mut push = |viols: &mut Vec<CrashViolation>, class: String, detail: String, crash: CrashSpec| {
        if seen_classes.contains(&class) {
            return;
        }
        seen_classes.push(class.clone());
        viols.push(CrashViolation { v: Violation { prop: prop.to_string(), class, detail, op_index: -1 }, crash });
    };
    for c in specs {
        let img = make_image(&initial, trace, &c);
        let cfg = cfg_at(c.k);
        let (m, n) = facts.bounds(c.k);
        stats.images += 1;
        *stats.by_kind.entry(format!("{:?}", c.kind)).or_default() += 1;
        stats.shapes.insert(shape_hash(&img));
        let (res, _) = eval_image(&img, &cfg, img_dir, false);
        judge(prop, &c, None, &img, &res, &facts, m, n, cc, stats, &mut |cl, d, cs| push(&mut viols, cl, d, cs));
        // continuation: the recovered store must accept writes, flushes and a further restart
        if cc.continuation {
            if let Outcome::Opened { state, entries, read_err: None } = &res.outcome {
                let pct = if !cc.check_recoverable { 4 } else if c.kind == CrashKind::Process { 30 } else { 8 };
                let sample = only.is_some() || cc.thorough && stats.continuations < 400 || rng.chance(pct);
                if let (true, Some(j)) = (sample, match_prefix(&facts.prefix, 0, facts.prefix.len() - 1, state, entries)) {
                    stats.continuations += 1;
                    *stats.probes.entry("continuation_after_recovery".into()).or_default() += 1;
                    let mut crng = Rng::new(crate::rng::mix(&[c.k as u64, j as u64, 77]));
                    let ops = crate::gen::gen_continuation(&mut crng, &facts.prefix[j]);
                    let mut ccfg = cfg.clone();
                    ccfg.log_cache_max_items = None;
                    ccfg.log_cache_capacity = None;
                    let spec = crate::ops::Spec { prop: prop.to_string(), run_seed: c.k as u64, cfg: ccfg.clone(), ops, sched: crate::ops::Sched::Default, faults: vec![], flush_batch: 1024, lower_term_reappend: false };
                    let or = crate::exec::Oracles { prop: prop.to_string(), model_eq: true, restart_eq: true, ..Default::default() };
                    // the continuation runs on the very instance that performed the recovery (a fresh
                    // open of the already repaired directory would hide what recovery left in memory)
                    let (_r2, kept) = eval_image(&img, &ccfg, img_dir, true);
                    let Some(kept) = kept else { continue };
                    let cont = crate::exec::continue_on(kept, &spec, &or, img_dir, facts.prefix[j].clone());
                    if std::env::var("SIM_DEBUG_CONT").is_ok() {
                        eprintln!("--- continuation after {:?}: ops {:?}", c, spec.ops.iter().map(|o| o.short()).collect::<Vec<_>>());
                        eprintln!("    image: {:?}", img.files.iter().map(|(n, f)| (n.clone(), f.data.len(), f.synced)).collect::<Vec<_>>());
                        for (i, e) in cont.ep.trace.iter().enumerate() {
                            match e {
                                Ev::Fs(f) => eprintln!("    {i:3} {} {:?} {} off={} len={} res={}", cont.ep.thread_names.get(f.tid as usize).cloned().unwrap_or_default(), f.op, f.file, f.off, f.len, f.res),
                                Ev::H(h) => eprintln!("    {i:3}      {h:?}"),
                            }
                        }
                        eprintln!("    violations: {:?}", cont.violations.iter().map(|v| (&v.class, &v.detail)).collect::<Vec<_>>());
                    }
                    for v in &cont.violations {
                        // the history that led to the image decides the family, not the continuation alone
                        let vclass = if facts.family_lower { v.class.replace("monotone-family", "lower-term-family") } else { v.class.clone() };
                        push(&mut viols, format!("continuation:{}", vclass), format!("after recovery from crash {:?} (state = S_{j}): op #{}: {}", c, v.op_index, v.detail), c.clone());
                    }
                    // second-level: the machine loses power while the recovered process runs. Bytes
                    // the dead process wrote but never synced are still only in the page cache.
                    if cont.violations.is_empty() && cont.aborted.is_none() {
                        // the continuation's trace starts with the recovery's own calls
                        let base0 = if c.kind == CrashKind::Process { img.clone() } else { img.clone().all_durable() };
                        let base = base0.clone();
                        let cfacts = run_facts(&cont);
                        let ccfg_at = |k: usize| cont.opens.iter().rev().find(|o| o.t_begin <= k).map(|o| o.cfg.clone()).unwrap_or_else(|| cfg.clone());
                        // crash points: right after every Ack(ok) of the continuation, everything unsynced lost
                        let mut pts: Vec<usize> = cont.ep.trace.iter().enumerate().filter(|(_, e)| matches!(e, Ev::H(HEv::Ack { ok: true, .. }))).map(|(i, _)| i + 1).collect();
                        if let Some(ac) = c.after_continuation.as_ref() {
                            pts = vec![ac.k];
                        }
                        for k2 in pts {
                            let d2 = Disk::replay(&base, &cont.ep.trace, k2);
                            let mut cuts = BTreeMap::new();
                            for (n, f) in &d2.files {
                                if f.synced < f.data.len() {
                                    cuts.insert(n.clone(), f.synced);
                                }
                            }
                            let c2 = CrashSpec { k: k2, partial: None, kind: CrashKind::PowerCut, cuts, nested: None, after_continuation: None };
                            let img2 = make_image(&base, &cont.ep.trace, &c2);
                            stats.nested_images += 1;
                            *stats.probes.entry("power_loss_after_continuation".into()).or_default() += 1;
                            let (res2, _) = eval_image(&img2, &ccfg_at(k2), img_dir, false);
                            let (m2, n2) = cfacts.bounds(k2);
                            let mut full = c.clone();
                            full.after_continuation = Some(Box::new(c2.clone()));
                            match &res2.outcome {
                                Outcome::Opened { state, entries, read_err } => {
                                    stats.opened += 1;
                                    if read_err.is_none() && match_prefix(&cfacts.prefix, m2, n2, state, entries).is_none() {
                                        push(&mut viols, "after-continuation:acked-write-lost".into(), format!("crash {:?}, recovery, continuation, power loss after its ack at {k2}: recovered {:?} / {} entries is not a continuation prefix in [{m2},{n2}]", c, state, entries.len()), full);
                                    }
                                }
                                Outcome::Refused(_) | Outcome::Panicked { .. } => {
                                    let (what, err, detail) = match &res2.outcome {
                                        Outcome::Refused(e) => {
                                            stats.refused += 1;
                                            ("open-refused", e.split(':').take(2).collect::<Vec<_>>().join(":"), format!("open refused: {e}"))
                                        }
                                        Outcome::Panicked { loc, msg } => {
                                            stats.panicked += 1;
                                            ("open-panic", crate::exec::panic_class(loc, msg), format!("open panicked at {loc}: {msg}"))
                                        }
                                        _ => unreachable!(),
                                    };
                                    // is the damaged chunk one that still held bytes the dead process (or its
                                    // recovery) wrote but nobody ever synced?
                                    let sh = image_shape(&img2);
                                    let victim = sh.short_non_newest.map(|x| x.0).or(if sh.newest_complete == 0 { Some(sh.newest_id) } else { None });
                                    let dead_tail = victim
                                        .map(|id| {
                                            let name = crate::shadow::chunk_name(id);
                                            base.files.get(&name).map(|f| f.synced < f.data.len()).unwrap_or(false)
                                        })
                                        .unwrap_or(false);
                                    let newest_victim = sh.short_non_newest.is_none();
                                    let class = if dead_tail && !newest_victim {
                                        format!("after-continuation:{what}:{err}:unsynced-bytes-of-dead-process-in-non-newest-chunk-never-synced")
                                    } else {
                                        format!("after-continuation:{}", classify_failure(what, &err, &img2, &cfacts, k2, false))
                                    };
                                    push(&mut viols, class, format!("crash {:?}, recovery ok, continuation acked a flush, power loss at {k2} of the continuation: {detail}; image {:?}", c, sh), full);
                                }
                            }
                        }
                    }
                }
            }
        }
        // nested: crash during the recovery itself
        let want_nested = match (&c.nested, only) {
            (Some(_), _) => true,
            (None, Some(_)) => false,
            (None, None) => cc.nested && matches!(res.outcome, Outcome::Opened { .. }) && res.trace.iter().any(|e| matches!(e, Ev::Fs(f) if matches!(f.op, FsOp::Create | FsOp::Ftruncate | FsOp::Write))),
        };
        if want_nested {
            // the image's own durability: a process-crash image keeps the synced lengths of the crash moment
            let base = if c.kind == CrashKind::Process { img.clone() } else { img.clone().all_durable() };
            let inner: Vec<CrashSpec> = match &c.nested {
                Some(n) => vec![(**n).clone()],
                None => {
                    let mut v = enumerate(&base, &res.trace, cc.thorough, rng, 4);
                    if !cc.thorough && v.len() > 6 {
                        v.truncate(6);
                    }
                    v
                }
            };
            for ic in inner {
                let img2 = make_image(&base, &res.trace, &ic);
                stats.nested_images += 1;
                *stats.probes.entry("nested_recovery_crash".into()).or_default() += 1;
                let (res2, _) = eval_image(&img2, &cfg, img_dir, false);
                let mut full = c.clone();
                full.nested = Some(Box::new(ic.clone()));
                judge(prop, &full, Some(&ic), &img2, &res2, &facts, m, n, cc, stats, &mut |cl, d, cs| push(&mut viols, cl, d, cs));
            }
        }
    }
    viols
}

#[allow(clippy::too_many_arguments)]
fn judge(
    _prop: &str,
    c: &CrashSpec,
    inner: Option<&CrashSpec>,
    img: &Disk,
    res: &ImgResult,
    facts: &RunFacts,
    m: usize,
    n: usize,
    cc: &CrashCheckCfg,
    stats: &mut CrashStats,
    push: &mut dyn FnMut(String, String, CrashSpec),
) {
    let level2 = inner.is_some();
    match &res.outcome {
        Outcome::Opened { state, entries, read_err } => {
            stats.opened += 1;
            *stats.probes.entry(format!("opened_{:?}{}{}", c.kind, if m > 0 { "_with_acked_data" } else { "" }, if level2 { "_nested" } else { "" })).or_default() += 1;
            if let Some(e) = read_err {
                if cc.check_prefix {
                    push(format!("recovered-read-err:{}:{e}", if facts.family_lower { "lower-term-family" } else { "monotone-family" }), format!("recovered store cannot read its entries: {e}; crash {:?}", c), c.clone());
                }
                return;
            }
            if cc.check_prefix {
                match match_prefix(&facts.prefix, m, n, state, entries) {
                    Some(_) => {}
                    None if facts.uncertain => {
                        // fault runs: the record list itself is uncertain after a caller-visible error
                    }
                    None => {
                        // why?
                        let below = match_prefix(&facts.prefix, 0, m.saturating_sub(1), state, entries);
                        let above = match_prefix(&facts.prefix, n + 1, facts.prefix.len() - 1, state, entries);
                        let class = if below.is_some() {
                            format!("acked-write-lost:{:?}", c.kind)
                        } else if above.is_some() {
                            "future-write-visible".to_string()
                        } else {
                            format!("not-a-prefix:{:?}", c.kind)
                        };
                        let detail = format!(
                            "crash {:?}: recovered state {:?} with {} entries (last ids {:?}) is not S_j for any {m} <= j <= {n} (acked prefix m={m}, issued n={n}); matches S_{:?} below / S_{:?} above",
                            c,
                            state,
                            entries.len(),
                            entries.iter().rev().take(3).map(|e| e.0).collect::<Vec<_>>(),
                            below,
                            above
                        );
                        push(class, detail, c.clone());
                    }
                }
            }
        }
        Outcome::Refused(e) => {
            stats.refused += 1;
            if cc.check_recoverable {
                let class = classify_failure("open-refused", e, img, facts, c.k, level2);
                push(class, format!("crash {:?}: open refused: {e}; image {:?}", c, image_shape(img)), c.clone());
            }
        }
        Outcome::Panicked { loc, msg } => {
            stats.panicked += 1;
            if cc.check_recoverable {
                let class = classify_failure("open-panic", &crate::exec::panic_class(loc, msg), img, facts, c.k, level2);
                push(class, format!("crash {:?}: open panicked at {loc}: {msg}; image {:?}", c, image_shape(img)), c.clone());
            }
        }
    }
}
